(* SrcTie3Raw.v — Tie A, level 1, for the raw layer (work package readerT): RawLayerReader::{new,
   reset_position, seek, read} of mla/src/layers/raw.rs, translated statement by statement into
   gen/Src3d.v, ARE RawLayer.v's raw_new / raw_reset / rseek / rread for every inner stream: the
   three arms of `seek`, the D19 `checked_add` (refusal BEFORE the inner layer is touched), the
   clamp to `offset_pos` of the relative arms. *)
From MLA Require Import Base Stream.
From MLA Require RawLayer.
From MLAGen Require Src3d.
From Coq Require Import ZifyBool ZifyNat ZifyN.
Open Scope N_scope.

Section TieRaw.
  Variable S : Stream.
  Definition rep_raw (s : RawLayer.rstate S) : Src3d.RawLayerReader S :=
    Src3d.mkRaw S (RawLayer.r_in s) (RawLayer.r_off s).

  (* ---------- RawLayerReader ---------- *)
  Theorem raw_seek_src (s : RawLayer.rstate S) w :
    Src3d.raw_seek S (rep_raw s) w = let '(s', x) := RawLayer.rseek S s w in (rep_raw s', x).
  Proof.
    destruct s as [i off]. unfold Src3d.raw_seek, RawLayer.rseek, RawLayer.rseek_rel, rep_raw.
    cbn [RawLayer.r_in RawLayer.r_off Src3d.raw_inner Src3d.raw_offset_pos Src3d.set_raw_inner].
    destruct w as [pos|d|d].
    - destruct (2 ^ 64 <=? off + pos); [reflexivity|].
      destruct (sk S i (FromStart (off + pos))) as [i1 [p|e|x]]; reflexivity.
    - destruct (sk S i (FromCur d)) as [i1 [p|e|x]]; [|reflexivity|reflexivity].
      destruct (p <? off); [|reflexivity].
      destruct (sk S i1 (FromStart off)) as [i2 [p2|e|x]]; reflexivity.
    - destruct (sk S i (FromEnd d)) as [i1 [p|e|x]]; [|reflexivity|reflexivity].
      destruct (p <? off); [|reflexivity].
      destruct (sk S i1 (FromStart off)) as [i2 [p2|e|x]]; reflexivity.
  Qed.
  Theorem raw_read_src (s : RawLayer.rstate S) n :
    Src3d.raw_read S (rep_raw s) n = let '(s', x) := RawLayer.rread S s n in (rep_raw s', x).
  Proof.
    destruct s as [i off]. unfold Src3d.raw_read, RawLayer.rread, rep_raw.
    cbn [RawLayer.r_in RawLayer.r_off Src3d.raw_inner Src3d.raw_offset_pos Src3d.set_raw_inner].
    destruct (rd S i n) as [i1 r]. reflexivity.
  Qed.
  Theorem raw_reset_src (s : RawLayer.rstate S) :
    Src3d.raw_reset_position S (rep_raw s) = let '(s', x) := RawLayer.raw_reset S s in (rep_raw s', x).
  Proof.
    destruct s as [i off]. unfold Src3d.raw_reset_position, RawLayer.raw_reset, rep_raw.
    cbn [RawLayer.r_in RawLayer.r_off Src3d.raw_inner Src3d.raw_offset_pos Src3d.set_raw_inner Src3d.set_raw_offset_pos].
    destruct (sk S i (FromCur 0)) as [i1 [p|e|x]]; reflexivity.
  Qed.
  Theorem raw_new_src (i : st S) : Src3d.RawLayerReader_new S i = rep_raw (RawLayer.raw_new S i).
  Proof. reflexivity. Qed.
  (* the stream the layers above see: the translated seek / read ARE RawLayer.RawReader's, through rep_raw *)
  Corollary raw_stream_src (s : st (RawLayer.RawReader S)) w n :
    Src3d.raw_seek S (rep_raw s) w = (rep_raw (fst (sk (RawLayer.RawReader S) s w)), snd (sk (RawLayer.RawReader S) s w)) /\
    Src3d.raw_read S (rep_raw s) n = (rep_raw (fst (rd (RawLayer.RawReader S) s n)), snd (rd (RawLayer.RawReader S) s n)).
  Proof.
    split.
    - rewrite raw_seek_src. cbn [RawLayer.RawReader sk]. now destruct (RawLayer.rseek S s w).
    - rewrite raw_read_src. cbn [RawLayer.RawReader rd]. now destruct (RawLayer.rread S s n).
  Qed.
End TieRaw.

Example translated_raw_nonvacuous :
  let S0 := Cursor [1; 2; 3; 4; 5; 6; 7; 8] in
  snd (Src3d.raw_seek S0 (Src3d.mkRaw S0 0 5) (FromStart (2 ^ 64 - 3))) = Err EInval /\
  snd (Src3d.raw_seek S0 (Src3d.mkRaw S0 0 5) (FromCur 2)) = Ok 0 /\
  Src3d.raw_seek S0 (Src3d.mkRaw S0 0 5) (FromEnd (-1)) = (Src3d.mkRaw S0 7 5, Ok 2) /\
  Src3d.raw_read S0 (Src3d.mkRaw S0 6 5) 10 = (Src3d.mkRaw S0 8 5, Ok [7; 8]) /\
  Src3d.raw_reset_position S0 (Src3d.mkRaw S0 3 0) = (Src3d.mkRaw S0 3 3, Ok tt).
Proof. vm_compute. repeat split; reflexivity. Qed.
