(* RunHdr.v — Tie B entry points of work package `hdrsrc`: the archive HEADER read from a
   source (HeaderStream.read_header_s over Stream.Throttled = the harness's ThrottledReader)
   and the whole `ArchiveFailSafeReader::from_config` + `convert_to_archive` on the bytes of an
   archive INCLUDING its header (ArchiveSrc.failsafe_repair's none / ENCRYPT branches with the
   concrete AES-256-GCM), in both flavours (the model is parametric in the constants).

   ECIES: `repair_archive` runs Archive.load_config in the oracle mode of RunC01.v (candidates
   = X25519 shared secrets computed by the harness); `repair_archive_kn` takes the session key
   and nonce as given (the unwrap is compared by job c01-header) — cheaper, used for sweeps. *)
From MLA Require Import Limit.
From MLAGen Require Src.
(* executable entry points: the production value of BINCODE_MAX_DESERIALIZE (the same in both flavours), file-local *)
#[local] Instance RUN_LIMIT : Limit := MLAGen.Src.BINCODE_MAX_DESERIALIZE_prod.
From MLA Require Import Base Stream Inst InstGcm EncLayer Repair Writer Format Archive HeaderStream Run RunC01.
From MLA.Concrete Require Aes.
From MLAGen Require Src.
Open Scope N_scope.

Definition hdr_LIMIT : N := Src.BINCODE_MAX_DESERIALIZE_prod.

Definition hdr_err_code (e : err) : N :=
  match e with
  | EUnexpectedEof => 1 | EMagic => 2 | EVersion => 3 | EDeser => 4 | EFuel => 99 | _ => 9
  end.

(* ArchiveHeader::from through a source returning at most sched[i] bytes at the i-th read:
   [0]; [bytes consumed]; [layers; encrypt config present; wrapped keys]   or   [1; error]; [bytes consumed] *)
Definition hdr_read (_ : consts) (archive : bytes) (sched : list N) : list (list N) :=
  match read_header_s (Throttled archive) hdr_LIMIT (0, sched) with
  | (s, Ok h) =>
    [[0]; [fst s];
     [h_layers h; match h_enc h with Some _ => 1 | None => 0 end;
      match h_enc h with Some eh => len (eh_keys eh) | None => 0 end]]
  | (s, Err e) => [[1; hdr_err_code e]; [fst s]]
  | (s, Crash _) => [[2]; [fst s]]
  end.

(* key stream of the chunks, no longer than the data *)
Definition gcm_tab_upto (rk : list bytes) (nonce8 : bytes) (CHUNK maxlen : N) (n : nat) : list bytes :=
  map (fun i => GcmSpec.keystream_rk rk (chunk_nonce nonce8 (N.of_nat i)) (N.min CHUNK maxlen)) (seq 0 n).

(* the layers and convert_to_archive after the header, over the same source *)
Definition repair_after_header (k : consts) (archive : bytes) (s1 : st (Throttled archive))
           (e c : bool) (key nonce8 : bytes) (unauth : N) : list (list N) :=
  let fuel := (N.to_nat (len archive) + 16)%nat in
  if c then [[77]] else
  if e then
    let rk := Aes.aes256_expand key in
    let CH := cCHUNK k in let TG := cTAG k in
    let nchunks := N.to_nat (len archive / (CH + TG) + 2) in
    let tab := gcm_tab_upto rk nonce8 CH (len archive) nchunks in
    let ks := gcm_ks tab in let tagc := gcm_tagc rk nonce8 in
    match fs_open CH TG ks (Throttled archive) s1 with
    | (es, Ok _) => repair_run k (FsEnc CH TG ks tagc (unauth =? 1) (Throttled archive)) fuel es
    | (_, Err _) => [[1]]
    | (_, Crash _) => [[2]]
    end
  else repair_run k (Throttled archive) fuel s1.

Definition repair_archive (k : consts) (archive : bytes) (cands : list bytes) (unauth : N) (sched : list N)
  : list (list N) :=
  match read_header_s (Throttled archive) hdr_LIMIT (0, sched) with
  | (s1, Ok h) =>
    match load_config (fun p _ => p) hkdf_info c01_wdec c01_wtag h cands with
    | Ok (e, c, key, nonce8) => repair_after_header k archive s1 e c key nonce8 unauth
    | Err _ => [[1]]
    | Crash _ => [[2]]
    end
  | (_, Err _) => [[1]]
  | (_, Crash _) => [[2]]
  end.

Definition repair_archive_kn (k : consts) (archive : bytes) (key nonce8 : bytes) (unauth : N) (sched : list N)
  : list (list N) :=
  match read_header_s (Throttled archive) hdr_LIMIT (0, sched) with
  | (s1, Ok h) =>
    let e := has_bit (h_layers h) L_ENCRYPT in
    let c := has_bit (h_layers h) L_COMPRESS in
    if e && match h_enc h with None => true | Some _ => false end then [[1]]   (* IncoherentPersistentConfig *)
    else repair_after_header k archive s1 e c key nonce8 unauth
  | (_, Err _) => [[1]]
  | (_, Crash _) => [[2]]
  end.
