(* CompLayer.v — model of mla/src/layers/compress.rs (definitions only; proofs in
   CompLayerProofs.v): SizesInfo, CompressionLayerReader (read, the three seek arms,
   initialize), the wire format, CompressionLayerWriter.

   Parametric in BLOCK (UNCOMPRESSED_DATA_SIZE) and LIMIT (BINCODE_MAX_DESERIALIZE).
   Brotli is NOT re-implemented.  It enters as
     dec  : bytes -> bytes   the plaintext a brotli::Decompressor<Take<R>> yields when the
                             Take hands it exactly these compressed bytes
     comp : bytes -> bytes   what a CompressorWriter has emitted for this input at into_inner
   The reader is a functor over an inner Stream.

   The decompressor object is modelled as (inner state, block plaintext, bytes delivered).
   The real decompressor pulls compressed bytes lazily and may stop before or exactly at the
   end of the Take region; the code's own comment (compress.rs:158-174) says the inner
   position is then unspecified and `underlayer_pos` is the one to trust.  The model reads
   the whole take(csize) region with read_full when the decompressor is created; nothing in
   the model depends on the inner position while/after a decompressor is live, because every
   Ready -> InData transition re-seeks the inner layer (sync_inner_with_uncompressed_pos).
   Consequence for timing of inner I/O errors only: the model reports them when the
   decompressor is created, the code when it first reads; both leave the state Empty. *)
From MLA Require Import Base Stream.
From MLA Require Export Limit.
Open Scope N_scope.

(* Vec::get and iter().take(n).sum() with an N index (no unary blow-up on huge indexes) *)
Fixpoint nthN {A} (l : list A) (n : N) : option A :=
  match l with
  | [] => None
  | x :: r => if n =? 0 then Some x else nthN r (n - 1)
  end.
Fixpoint sum_firstN (l : list N) (n : N) : N :=
  match l with
  | [] => 0
  | x :: r => if n =? 0 then 0 else x + sum_firstN r (n - 1)
  end.

(* struct SizesInfo { compressed_sizes: Vec<u32>, last_block_size: u32 } *)
Record sizes_info := mkSI { si_sizes : list N; si_last : N }.

Fixpoint parse_u32s (n : nat) (b : bytes) : list N :=
  match n with
  | O => []
  | Datatypes.S n' => le_val (takeN 4 b) :: parse_u32s n' (dropN 4 b)
  end.

Section Comp.
  Variable BLOCK : N.      (* UNCOMPRESSED_DATA_SIZE, a non-zero constant *)
  Variable LIMIT : N.      (* BINCODE_MAX_DESERIALIZE *)

  (* ---------- SizesInfo (compress.rs:122-146; regenerated from the source in gen/Src.v) ---------- *)

  (* uncompressed_block_size_at(block_num) *)
  Definition si_ubs (si : sizes_info) (block_num : N) : N :=
    if block_num + 1 <? len (si_sizes si) then BLOCK else si_last si.

  (* compressed_block_size_at(uncompressed_pos); usize is 64 bits: try_from never fails *)
  Definition si_cbs (si : sizes_info) (pos : N) : res N :=
    match nthN (si_sizes si) (pos / BLOCK) with
    | Some c => Ok c
    | None => Err EInval
    end.

  (* max_uncompressed_pos(): saturating_sub(1) is N's subtraction.  No u64 overflow: a
     SizesInfo obtained by initialize has fewer than LIMIT/4 sizes and BLOCK is a u32. *)
  Definition si_max (si : sizes_info) : N := (len (si_sizes si) - 1) * BLOCK + si_last si.

  (* ---------- the wire format (what a finalized writer leaves in the inner layer) ---------- *)

  (* bincode, fixint, little endian: u64 count, u32 sizes, u32 last_block_size *)
  Definition footer_of (sizes : list N) (last : N) : bytes :=
    le_bytes 8 (len sizes) ++ flat_map (le_bytes 4) sizes ++ le_bytes 4 last.

  (* [CompressedBlock]...[CompressedBlock][SizesInfo][SizesInfo length, 4 bytes LE] *)
  Definition comp_wire (cbs : list bytes) (last : N) : bytes :=
    let f := footer_of (map (@len N) cbs) last in
    concat cbs ++ f ++ le_bytes 4 (len f).

  Definition block_at (plain : bytes) (j : N) : bytes := sliceN (j * BLOCK) BLOCK plain.
  Definition blocks_n (nb : nat) (plain : bytes) : list bytes :=
    map (fun j => block_at plain (N.of_nat j)) (seq 0 nb).
  (* number of blocks a writer fed with non-empty pieces produces: 0 for the empty stream,
     a full last block is NOT followed by an empty one *)
  Definition nblocks (L : N) : N := if L =? 0 then 0 else (L - 1) / BLOCK + 1.

  Section Format.
    Variable comp : bytes -> bytes.
    (* nb blocks: nb = nblocks |plain| for the canonical writer; a writer that is handed an
       empty buffer right after a full block (or first) produces one more, empty, block *)
    Definition comp_format_n (nb : N) (plain : bytes) : bytes :=
      comp_wire (map comp (blocks_n (N.to_nat nb) plain)) (len plain - (nb - 1) * BLOCK).
    Definition comp_format (plain : bytes) : bytes := comp_format_n (nblocks (len plain)) plain.
  End Format.

  (* ---------- reader (compress.rs:88-560), over an inner stream ---------- *)

  Variable dec : bytes -> bytes.
  Variable S : Stream.

  (* brotli::Decompressor<Take<R>>: inner layer, plaintext of the block, bytes delivered *)
  Record decomp := mkDec { d_in : st S; d_plain : bytes; d_off : N }.

  Inductive cstate :=
  | CReady (i : st S)
  | CInData (read usize : N) (d : decomp)
  | CEmpty.

  Record creader := mkC {
    c_state : cstate;
    c_si : option sizes_info;     (* sizes_info *)
    c_pos : N;                    (* underlayer_pos *)
  }.
  Definition set_state (c : creader) (s : cstate) : creader := mkC s (c_si c) (c_pos c).

  (* CompressionLayerReaderState::into_inner *)
  Definition into_inner (s : cstate) : res (st S) :=
    match s with
    | CReady i => Ok i
    | CInData _ _ d => Ok (d_in d)
    | CEmpty => Crash 186
    end.

  Definition pos_in_stream (si : option sizes_info) (p : N) : bool :=
    match si with None => true | Some s => p <? si_max s end.

  (* the two guards repeated at the top of new_decompressor_at, uncompressed_block_size_at
     and sync_inner_with_uncompressed_pos *)
  Definition block_start_check (si : option sizes_info) (p : N) : res unit :=
    if negb (p mod BLOCK =? 0) then Err EInval
    else if negb (pos_in_stream si p) then Err EEos
    else Ok tt.

  (* sync_inner_with_uncompressed_pos *)
  Definition sync_inner (si : option sizes_info) (i : st S) (p : N) : st S * res unit :=
    match block_start_check si p with
    | Ok _ =>
      match si with
      | Some s =>
        match sk S i (FromStart (sum_firstN (si_sizes s) (p / BLOCK))) with
        | (i', Ok _) => (i', Ok tt)
        | (i', Err e) => (i', Err e)
        | (i', Crash x) => (i', Crash x)
        end
      | None => (i, Err EMissingMeta)
      end
    | Err e => (i, Err e)
    | Crash x => (i, Crash x)
    end.

  Definition dec_fuel (csize : N) : nat := Datatypes.S (N.to_nat csize).

  (* new_decompressor_at: Decompressor::new(inner.take(csize), min(csize, BLOCK)) — the second
     argument is only the size of brotli's input buffer; see the header comment for the
     read_full *)
  Definition new_decompressor_at (si : option sizes_info) (i : st S) (p : N) : res decomp :=
    do _ <- block_start_check si p;
    match si with
    | Some s =>
      do csize <- si_cbs s p;
      match read_full S (dec_fuel csize) i csize with
      | (i', Ok cb) => Ok (mkDec i' (dec cb) 0)
      | (_, Err e) => Err e
      | (_, Crash x) => Crash x
      end
    | None => Err EMissingMeta
    end.

  (* CompressionLayerReader::uncompressed_block_size_at *)
  Definition ubs_at (si : option sizes_info) (p : N) : res N :=
    do _ <- block_start_check si p;
    match si with
    | Some s => Ok (si_ubs s (p / BLOCK))
    | None => Err EMissingMeta
    end.

  (* decompressor.read(&mut buf[..size]) / io::copy(take(size), sink): the next `size` bytes
     of the block, fewer at its end.  (A real brotli read may also be short in the middle;
     callers loop, and Refines allows short reads.) *)
  Definition dec_read (d : decomp) (size : N) : decomp * bytes :=
    let data := sliceN (d_off d) size (d_plain d) in
    (mkDec (d_in d) (d_plain d) (d_off d + len data), data).

  (* Read::read.  `self.read(buf)` calls itself at most twice (InData at the end of a block
     -> Ready -> InData): fuel 4 is never exhausted. *)
  Fixpoint cread_aux (fuel : nat) (c : creader) (n : N) : creader * res bytes :=
    match fuel with
    | O => (c, Err EFuel)
    | Datatypes.S fuel' =>
      if negb (pos_in_stream (c_si c) (c_pos c)) then (c, Ok []) else
      let c0 := set_state c CEmpty in       (* mem::replace(&mut self.state, Empty) *)
      match c_state c with
      | CReady i =>
        match sync_inner (c_si c) i (c_pos c) with
        | (i1, Ok _) =>
          match new_decompressor_at (c_si c) i1 (c_pos c) with
          | Ok d =>
            match ubs_at (c_si c) (c_pos c) with
            | Ok u => cread_aux fuel' (set_state c (CInData 0 u d)) n
            | Err e => (c0, Err e)
            | Crash x => (c0, Crash x)
            end
          | Err e => (c0, Err e)
          | Crash x => (c0, Crash x)
          end
        | (_, Err e) => (c0, Err e)
        | (_, Crash x) => (c0, Crash x)
        end
      | CInData r u d =>
        if u <? r then (c0, Err EState)
        else if r =? u then cread_aux fuel' (set_state c (CReady (d_in d))) n
        else
          let size := N.min (u - r) n in
          let '(d', data) := dec_read d size in
          (mkC (CInData (r + len data) u d') (c_si c) (c_pos c + len data), Ok data)
      | CEmpty => (c0, Err EState)
      end
    end.
  Definition cread : creader -> N -> creader * res bytes := cread_aux 4.

  (* Seek::seek, arm SeekFrom::Start (inside `Some(sizes_info)`), after the Empty guard *)
  Definition cseek_start_go (c : creader) (si : sizes_info) (pos : N) : creader * res N :=
    let inside := pos mod BLOCK in
    let rounded := pos - inside in
    let c0 := set_state c CEmpty in
    if negb (pos_in_stream (c_si c) rounded) then
      (* end-of-stream arm (D11 repair) *)
      if negb (pos =? si_max si) then (c, Err EEos)
      else
        match into_inner (c_state c) with
        | Ok i => (mkC (CReady i) (c_si c) pos, Ok pos)
        | Err e => (c0, Err e)
        | Crash x => (c0, Crash x)
        end
    else
      match into_inner (c_state c) with
      | Ok i =>
        match sync_inner (c_si c) i rounded with
        | (i1, Ok _) =>
          match new_decompressor_at (c_si c) i1 rounded with
          | Ok d =>
            match ubs_at (c_si c) rounded with
            | Ok u =>
              (* io::copy(&mut (&mut decompressor).take(inside_block), &mut io::sink()) *)
              let '(d', _) := dec_read d inside in
              if 2 ^ 32 <=? inside then (c0, Err EInval)
              else (mkC (CInData inside u d') (c_si c) pos, Ok pos)
            | Err e => (c0, Err e)
            | Crash x => (c0, Crash x)
            end
          | Err e => (c0, Err e)
          | Crash x => (c0, Crash x)
          end
        | (_, Err e) => (c0, Err e)
        | (_, Crash x) => (c0, Crash x)
        end
      | Err e => (c0, Err e)
      | Crash x => (c0, Crash x)
      end.

  Definition cseek_start (c : creader) (pos : N) : creader * res N :=
    match c_si c with
    | None => (c, Err EMissingMeta)
    | Some si =>
      match c_state c with
      | CEmpty => (c, Err EState)           (* guard added by the D13 repair *)
      | _ => cseek_start_go c si pos
      end
    end.

  (* end_pos.checked_sub(distance_from_end).ok_or_else(InvalidInput)? (regenerated in gen/Src.v) *)
  Definition end_target (end_pos dist : N) : res N :=
    if dist <=? end_pos then Ok (end_pos - dist) else Err EInval.

  Definition cseek (c : creader) (w : whence) : creader * res N :=
    match c_si c with
    | None => (c, Err EMissingMeta)
    | Some si =>
      match w with
      | FromStart p => cseek_start c p
      | FromCur d =>
        if (d =? 0)%Z then (c, Ok (c_pos c))
        else if c_pos c <? 2 ^ 63 then
          let t := (d + Z.of_N (c_pos c))%Z in
          if (2 ^ 63 <=? t)%Z then (c, Crash 495)      (* i64: pos + pos_i64 *)
          else if (0 <=? t)%Z then cseek_start c (Z.to_N t)
          else (c, Err EInval)
        else (c, Err EInval)
      | FromEnd d =>
        if (0 <? d)%Z then (c, Err EEos)
        else if (d =? - 2 ^ 63)%Z then (c, Crash 529)  (* i64: -pos *)
        else
          match end_target (si_max si) (Z.to_N (- d)) with
          | Ok q => cseek_start c q
          | Err e => (c, Err e)
          | Crash x => (c, Crash x)
          end
      end
    end.

  Definition CompReader : Stream := {| st := creader; rd := cread; sk := cseek |}.

  (* CompressionLayerReader::new: underlayer_pos = inner.stream_position() *)
  Definition comp_new (i : st S) : creader * res unit :=
    match sk S i (FromCur 0) with
    | (i', Ok p) => (mkC (CReady i') None p, Ok tt)
    | (i', Err e) => (mkC CEmpty None 0, Err e)
    | (i', Crash x) => (mkC CEmpty None 0, Crash x)
    end.

  Definition sbind {A B} (r : st S * res A) (f : st S -> A -> st S * res B) : st S * res B :=
    match r with
    | (i, Ok a) => f i a
    | (i, Err e) => (i, Err e)
    | (i, Crash x) => (i, Crash x)
    end.
  Definition as_deser {A} (r : st S * res A) : st S * res A :=
    match r with (i, Err _) => (i, Err EDeser) | r => r end.

  (* the footer: [SizesInfo][len u32 LE].  bincode reads through inner.take(len): the u64
     count, then count u32 and one u32, every read charged against LIMIT; trailing bytes of
     the take are ignored (deserialize_from does not check them). *)
  Definition read_sizes_info (inner_init : st S -> st S * res unit) (i : st S) : st S * res sizes_info :=
    sbind (inner_init i) (fun i0 _ =>
    sbind (sk S i0 (FromEnd (-4))) (fun i1 pos =>
    sbind (read_exact S 5 i1 4) (fun i2 lb =>
      let l := le_val lb in
      if pos <? l then (i2, Err EDeser) else       (* pos.checked_sub(len) *)
      sbind (sk S i2 (FromStart (pos - l))) (fun i3 _ =>
        if l <? 8 then (i3, Err EDeser) else
        sbind (as_deser (read_exact S 9 i3 8)) (fun i4 nbytes =>
          let n := le_val nbytes in
          let need := 4 * n + 4 in
          if (LIMIT <? 8 + need) || (l - 8 <? need) then (i4, Err EDeser) else
          sbind (as_deser (read_exact S (Datatypes.S (N.to_nat need)) i4 need)) (fun i5 body =>
            (i5, Ok (mkSI (parse_u32s (N.to_nat n) body) (le_val (dropN (4 * n) body)))))))))).

  (* LayerReader::initialize; inner_init = the inner layer's initialize *)
  Definition comp_initialize (inner_init : st S -> st S * res unit) (c : creader) : creader * res unit :=
    match c_state c with
    | CReady i =>
      match read_sizes_info inner_init i with
      | (i', Ok si) => (mkC (CReady i') (Some si) (c_pos c), Ok tt)
      | (i', Err e) => (mkC (CReady i') (c_si c) (c_pos c), Err e)
      | (i', Crash x) => (mkC (CReady i') (c_si c) (c_pos c), Crash x)
      end
    | _ => (c, Err EState)
    end.

  (* new, then initialize (ArchiveReader::from_config) *)
  Definition comp_open (inner_init : st S -> st S * res unit) (i0 : st S) : creader * res unit :=
    match comp_new i0 with
    | (c, Ok _) => comp_initialize inner_init c
    | r => r
    end.
End Comp.

Arguments mkDec {S} _ _ _.
Arguments d_in {S} _.
Arguments d_plain {S} _.
Arguments d_off {S} _.
Arguments CReady {S} _.
Arguments CInData {S} _ _ _.
Arguments CEmpty {S}.
Arguments mkC {S} _ _ _.
Arguments c_state {S} _.
Arguments c_si {S} _.
Arguments c_pos {S} _.

(* ---------- writer (compress.rs:562-791) ---------- *)
Section CompWriter.
  Context {LIM : Limit}.    (* BINCODE_MAX_DESERIALIZE *)
  Variable BLOCK : N.
  Variable comp : bytes -> bytes.

  (* InData(written, compressor): the compressor is modelled by the plaintext it was fed;
     what it has emitted into the inner writer when into_inner() flushes it is `comp` of
     that, and WriterWithCount.pos is its length (a u32: blocks compress below 4 GiB). *)
  Inductive cwst := WReady | WInData (written : N) (cur : bytes) | WEmpty.
  Record cwriter := mkCW {
    cw_out : bytes;           (* bytes in the inner writer *)
    cw_st : cwst;
    cw_sizes : list N;        (* compressed_sizes *)
  }.
  Definition cw_init : cwriter := mkCW [] WReady [].

  (* Write::write: new state and number of bytes accepted (CompressorWriter::write takes all
     it is given).  `self.write(buf)` calls itself once on block roll-over. *)
  Fixpoint cw_write_aux (fuel : nat) (w : cwriter) (buf : bytes) : cwriter * res N :=
    match fuel with
    | O => (w, Err EFuel)
    | Datatypes.S fuel' =>
      let w0 := mkCW (cw_out w) WEmpty (cw_sizes w) in
      match cw_st w with
      | WReady =>
        let size := N.min BLOCK (len buf) in
        if 2 ^ 32 <=? size then (w0, Err EInval)
        else (mkCW (cw_out w) (WInData size (takeN size buf)) (cw_sizes w), Ok size)
      | WInData written cur =>
        if BLOCK <? written then (w0, Err EState)
        else if written =? BLOCK then
          let cb := comp cur in
          cw_write_aux fuel' (mkCW (cw_out w ++ cb) WReady (cw_sizes w ++ [len cb])) buf
        else
          let size := N.min (BLOCK - written) (len buf) in
          (mkCW (cw_out w) (WInData (written + size) (cur ++ takeN size buf)) (cw_sizes w), Ok size)
      | WEmpty => (w0, Err EState)
      end
    end.
  Definition cw_write : cwriter -> bytes -> cwriter * res N := cw_write_aux 2.

  (* Write::write_all *)
  Fixpoint cw_write_all (fuel : nat) (w : cwriter) (buf : bytes) : cwriter * res unit :=
    match buf with
    | [] => (w, Ok tt)
    | _ =>
      match fuel with
      | O => (w, Err EFuel)
      | Datatypes.S fuel' =>
        match cw_write w buf with
        | (w', Ok n) => if n =? 0 then (w', Err EIo) else cw_write_all fuel' w' (dropN n buf)
        | (w', Err e) => (w', Err e)
        | (w', Crash x) => (w', Crash x)
        end
      end
    end.

  (* LayerWriter::finalize (before the recursive inner.finalize()), compress.rs:692-752.
     The SizesInfo footer goes through bincode under `.with_limit(BINCODE_MAX_DESERIALIZE)`:
     the bounded serializer computes the size first and writes NOTHING when it exceeds the
     limit (SerializationError; the state stays Empty after the mem::replace, compressed_sizes
     was taken); otherwise the footer is written and `u32::try_from(size)` fails from 2^32 on
     (SerializationError, footer already in the inner writer). *)
  Definition cw_finalize (w : cwriter) : cwriter * res unit :=
    match cw_st w with
    | WEmpty => (w, Err EState)
    | st0 =>
      let '(out1, sizes1, last) :=
        match st0 with
        | WInData written cur => (cw_out w ++ comp cur, cw_sizes w ++ [len (comp cur)], written)
        | _ => (cw_out w, cw_sizes w, 0)
        end in
      let f := footer_of sizes1 last in
      if lim <? len f then (mkCW out1 WEmpty [], Err EIo)                     (* SerializationError: bincode limit *)
      else if 2 ^ 32 <=? len f then (mkCW (out1 ++ f) WEmpty [], Err EIo)    (* SerializationError: u32::try_from *)
      else (mkCW (out1 ++ f ++ le_bytes 4 (len f)) WReady sizes1, Ok tt)
    end.
End CompWriter.

(* a toy reversible "compressor" for non-vacuity examples: a marker byte and the input reversed *)
Definition toy_comp (x : bytes) : bytes := 171 :: rev x.
Definition toy_dec (y : bytes) : bytes := rev (tl y).
