(* CompWriterProofs.v — the compression-layer writer is canonical: writing any pieces with
   write_all and finalizing leaves comp_format (concatenation of the pieces) in the inner
   layer, whatever the cut of the pieces. *)
From MLA Require Import Limit.
From MLA Require Import Base Stream CompLayer CompLayerProofs.
From Coq Require Import ZifyBool ZifyNat ZifyN.
Open Scope N_scope.

Section WriterProofs.
  Context {LIM : Limit}.
  Variable BLOCK : N.
  Hypothesis HB : 0 < BLOCK.
  Hypothesis HB32 : BLOCK < 2 ^ 32.
  Variable comp : bytes -> bytes.

  Notation block_at := (block_at BLOCK).
  Notation blocks_n := (blocks_n BLOCK).
  Notation cw_write := (cw_write BLOCK comp).
  Notation cw_write_all := (cw_write_all BLOCK comp).
  Notation cw_finalize := (cw_finalize comp).

  Definition cdone (k : N) (acc : bytes) : list bytes := map comp (blocks_n (N.to_nat k) acc).

  (* what the writer holds after accepting exactly the bytes `acc` *)
  Definition Winv (acc : bytes) (w : cwriter) : Prop :=
    (acc = [] /\ w = cw_init) \/
    (acc <> [] /\
     let k := (len acc - 1) / BLOCK in
     cw_st w = WInData (len acc - k * BLOCK) (dropN (k * BLOCK) acc) /\
     cw_out w = concat (cdone k acc) /\ cw_sizes w = map (@len N) (cdone k acc)).

  Lemma block_at_app acc x j : (j + 1) * BLOCK <= len acc -> block_at (acc ++ x) j = block_at acc j.
  Proof.
    intros H. unfold CompLayer.block_at, sliceN.
    rewrite dropN_app_le by nia. rewrite takeN_app_le by (rewrite len_dropN; nia). reflexivity.
  Qed.

  Lemma blocks_n_app acc x k : N.of_nat k * BLOCK <= len acc -> blocks_n k (acc ++ x) = blocks_n k acc.
  Proof.
    intros H. unfold CompLayer.blocks_n. apply map_ext_in. intros j Hj. apply in_seq in Hj.
    apply block_at_app. nia.
  Qed.

  Lemma blocks_n_S acc k : blocks_n (Datatypes.S k) acc = blocks_n k acc ++ [block_at acc (N.of_nat k)].
  Proof. unfold CompLayer.blocks_n. rewrite seq_S, map_app. reflexivity. Qed.

  Lemma len_nonnil {A} (l : list A) : l <> [] -> 0 < len l.
  Proof. destruct l; [congruence|]. intros _. rewrite len_cons. lia. Qed.

  Lemma kdiv (Lc k : N) : k * BLOCK < Lc -> Lc <= (k + 1) * BLOCK -> (Lc - 1) / BLOCK = k.
  Proof.
    intros H1 H2. symmetry. apply (N.div_unique _ _ k (Lc - 1 - k * BLOCK)); lia.
  Qed.

  Lemma kspec (Lc : N) : 0 < Lc ->
    let k := (Lc - 1) / BLOCK in k * BLOCK < Lc /\ Lc <= (k + 1) * BLOCK.
  Proof.
    intros H. cbv zeta. assert (Hnz : BLOCK <> 0) by lia.
    pose proof (N.div_mod (Lc - 1) BLOCK Hnz) as H1.
    pose proof (N.mod_lt (Lc - 1) BLOCK Hnz) as H2.
    revert H1 H2. generalize ((Lc - 1) / BLOCK) ((Lc - 1) mod BLOCK). intros q r H1 H2. lia.
  Qed.

  (* one Write::write of a non-empty buffer *)
  Lemma cw_write_spec acc w buf : Winv acc w -> buf <> [] ->
    exists w' n, cw_write w buf = (w', Ok n) /\ 0 < n /\ n <= len buf /\ Winv (acc ++ takeN n buf) w'.
  Proof.
    intros HW Hbuf. pose proof (len_nonnil buf Hbuf) as Hlb.
    destruct HW as [[-> ->]|(Hacc & Hst & Hout & Hsz)].
    - (* first write *)
      unfold CompLayer.cw_write. cbn [cw_write_aux cw_init cw_st cw_out cw_sizes].
      set (size := N.min BLOCK (len buf)).
      destruct (N.leb_spec (2 ^ 32) size) as [?|_]; [lia|].
      eexists _, size. split; [reflexivity|]. split; [lia|]. split; [lia|].
      right. cbn [app]. assert (Hl : len (takeN size buf) = size) by (rewrite len_takeN; lia).
      split; [intros E; rewrite E, len_nil in Hl; lia|].
      rewrite Hl. cbv zeta. rewrite (kdiv size 0) by lia.
      cbn [cw_st cw_out cw_sizes]. rewrite N.mul_0_l, N.sub_0_r, dropN_0.
      repeat split; reflexivity.
    - pose proof (len_nonnil acc Hacc) as Hla.
      cbv zeta in Hst, Hout, Hsz. destruct (kspec (len acc) Hla) as [Hk1 Hk2].
      set (k := (len acc - 1) / BLOCK) in *.
      destruct w as [wout wst wsizes]. cbn [cw_st cw_out cw_sizes] in *. subst wst wout wsizes.
      set (written := len acc - k * BLOCK).
      set (cur := dropN (k * BLOCK) acc).
      unfold CompLayer.cw_write. remember 1%nat as f1 eqn:Hf1.
      cbn [cw_write_aux cw_st cw_out cw_sizes].
      destruct (N.ltb_spec BLOCK written) as [?|_]; [lia|].
      destruct (N.eqb_spec written BLOCK) as [Heq|Hne].
      + (* roll-over on this write *)
        subst f1. cbn [cw_write_aux cw_st cw_out cw_sizes].
        set (size := N.min BLOCK (len buf)).
        destruct (N.leb_spec (2 ^ 32) size) as [?|_]; [lia|].
        eexists _, size. split; [reflexivity|]. split; [lia|]. split; [lia|].
        right. assert (Hl : len (takeN size buf) = size) by (rewrite len_takeN; lia).
        split; [intros E; apply (f_equal (@len N)) in E; rewrite len_app, Hl, len_nil in E; lia|].
        cbv zeta. rewrite len_app, Hl.
        rewrite (kdiv (len acc + size) (k + 1)) by lia.
        cbn [cw_st cw_out cw_sizes].
        assert (Hcur : cur = block_at (acc ++ takeN size buf) k).
        { rewrite block_at_app by lia. unfold cur, CompLayer.block_at, sliceN.
          rewrite takeN_all; [reflexivity|]. rewrite len_dropN. lia. }
        assert (Hdone : cdone (k + 1) (acc ++ takeN size buf) = cdone k acc ++ [comp cur]).
        { unfold cdone. replace (N.to_nat (k + 1)) with (Datatypes.S (N.to_nat k)) by lia.
          rewrite blocks_n_S, map_app, N2Nat.id, <- Hcur. cbn [map].
          rewrite blocks_n_app by (rewrite N2Nat.id; lia). reflexivity. }
        rewrite Hdone. split; [|split].
        * f_equal; [lia|]. rewrite dropN_app_ge by lia.
          replace ((k + 1) * BLOCK - len acc) with 0 by lia. reflexivity.
        * rewrite concat_app. cbn [concat]. rewrite app_nil_r. reflexivity.
        * rewrite map_app. reflexivity.
      + set (size := N.min (BLOCK - written) (len buf)).
        eexists _, size. split; [reflexivity|]. split; [lia|]. split; [lia|].
        right. assert (Hl : len (takeN size buf) = size) by (rewrite len_takeN; lia).
        split; [intros E; apply (f_equal (@len N)) in E; rewrite len_app, Hl, len_nil in E; lia|].
        cbv zeta. rewrite len_app, Hl.
        rewrite (kdiv (len acc + size) k) by lia.
        cbn [cw_st cw_out cw_sizes].
        assert (Hdone : cdone k (acc ++ takeN size buf) = cdone k acc).
        { unfold cdone. rewrite blocks_n_app by (rewrite N2Nat.id; lia). reflexivity. }
        rewrite Hdone. split; [|split; reflexivity].
        f_equal; [lia|]. unfold cur. rewrite dropN_app_le by lia. reflexivity.
  Qed.

  (* Write::write_all *)
  Lemma cw_write_all_spec fuel : forall acc w buf, Winv acc w -> (N.to_nat (len buf) < fuel)%nat ->
    exists w', cw_write_all fuel w buf = (w', Ok tt) /\ Winv (acc ++ buf) w'.
  Proof.
    induction fuel as [|fuel IH]; intros acc w buf HW Hf; [lia|].
    destruct buf as [|b0 buf'].
    - exists w. cbn [CompLayer.cw_write_all]. rewrite app_nil_r. split; [reflexivity | exact HW].
    - set (buf := b0 :: buf') in *.
      assert (Hne : buf <> []) by discriminate.
      destruct (cw_write_spec acc w buf HW Hne) as (w1 & n & Hwr & Hn0 & Hnl & HW1).
      change (CompLayer.cw_write_all BLOCK comp (Datatypes.S fuel) w buf)
        with (match cw_write w buf with
              | (w', Ok n) => if n =? 0 then (w', Err EIo) else cw_write_all fuel w' (dropN n buf)
              | (w', Err e) => (w', Err e)
              | (w', Crash x) => (w', Crash x)
              end).
      rewrite Hwr. destruct (N.eqb_spec n 0) as [?|_]; [lia|].
      destruct (IH (acc ++ takeN n buf) w1 (dropN n buf) HW1) as (w2 & Hall & HW2).
      { rewrite len_dropN. lia. }
      exists w2. split; [exact Hall|]. rewrite <- app_assoc, takeN_dropN in HW2. exact HW2.
  Qed.

  (* any sequence of write_all calls *)
  Fixpoint cw_write_pieces (w : cwriter) (pieces : list bytes) : cwriter * res unit :=
    match pieces with
    | [] => (w, Ok tt)
    | p :: r =>
      match cw_write_all (Datatypes.S (N.to_nat (len p))) w p with
      | (w', Ok _) => cw_write_pieces w' r
      | x => x
      end
    end.

  Lemma cw_write_pieces_spec pieces : forall acc w, Winv acc w ->
    exists w', cw_write_pieces w pieces = (w', Ok tt) /\ Winv (acc ++ concat pieces) w'.
  Proof.
    induction pieces as [|p r IH]; intros acc w HW; cbn [cw_write_pieces concat].
    - exists w. rewrite app_nil_r. split; [reflexivity | exact HW].
    - destruct (cw_write_all_spec (Datatypes.S (N.to_nat (len p))) acc w p HW) as (w1 & -> & HW1); [lia|].
      destruct (IH (acc ++ p) w1 HW1) as (w2 & Hr & HW2).
      exists w2. split; [exact Hr|]. rewrite app_assoc. exact HW2.
  Qed.

  (* finalize: the canonical wire form *)
  Lemma cw_finalize_spec acc w : Winv acc w -> 12 + 4 * nblocks BLOCK (len acc) < 2 ^ 32 ->
    12 + 4 * nblocks BLOCK (len acc) <= lim ->      (* the SizesInfo footer under BINCODE_MAX_DESERIALIZE *)
    exists w', cw_finalize w = (w', Ok tt) /\ cw_out w' = comp_format BLOCK comp acc.
  Proof.
    intros HW Hsmall Hlim. unfold comp_format, comp_format_n, comp_wire.
    assert (Hlf : forall sizes last, len (footer_of sizes last) = 12 + 4 * len sizes).
    { intros. unfold footer_of. rewrite !len_app, !len_le_bytes, len_flat_le4. cbn [N.of_nat]. lia. }
    destruct HW as [[-> ->]|(Hacc & Hst & Hout & Hsz)].
    - unfold CompLayer.cw_finalize. cbn [cw_init cw_st cw_out cw_sizes].
      rewrite Hlf. destruct (N.ltb_spec lim (12 + 4 * len (@nil N))) as [H|_]; [rewrite (@len_nil N) in H; unfold nblocks in Hlim; cbn in Hlim; lia|].
      destruct (N.leb_spec (2 ^ 32) (12 + 4 * len (@nil N))) as [H|_]; [rewrite (@len_nil N) in H; lia|].
      eexists. split; [reflexivity|]. cbn [cw_out]. reflexivity.
    - pose proof (len_nonnil acc Hacc) as Hla.
      cbv zeta in Hst, Hout, Hsz. destruct (kspec (len acc) Hla) as [Hk1 Hk2].
      assert (Hnbk : nblocks BLOCK (len acc) = (len acc - 1) / BLOCK + 1).
      { unfold nblocks. destruct (N.eqb_spec (len acc) 0); [lia | reflexivity]. }
      rewrite Hnbk in *.
      set (k := (len acc - 1) / BLOCK) in *.
      unfold CompLayer.cw_finalize. rewrite Hst, Hout, Hsz.
      set (cur := dropN (k * BLOCK) acc).
      assert (Hcur : cur = block_at acc k).
      { unfold cur, CompLayer.block_at, sliceN. rewrite takeN_all; [reflexivity|]. rewrite len_dropN. lia. }
      assert (Hdone : map comp (blocks_n (N.to_nat (k + 1)) acc) = cdone k acc ++ [comp cur]).
      { unfold cdone. replace (N.to_nat (k + 1)) with (Datatypes.S (N.to_nat k)) by lia.
        rewrite blocks_n_S, map_app, N2Nat.id, <- Hcur. reflexivity. }
      rewrite Hdone.
      assert (Hlen_done : len (map (@len N) (cdone k acc) ++ [len (comp cur)]) = k + 1).
      { rewrite len_app, len_map. unfold cdone, CompLayer.blocks_n. rewrite !len_map.
        unfold len. rewrite seq_length. cbn [length]. lia. }
      rewrite Hlf, Hlen_done.
      destruct (N.ltb_spec lim (12 + 4 * (k + 1))) as [?|_]; [lia|].
      destruct (N.leb_spec (2 ^ 32) (12 + 4 * (k + 1))) as [?|_]; [lia|].
      eexists. split; [reflexivity|]. cbn [cw_out].
      rewrite map_app, concat_app. cbn [map concat]. rewrite app_nil_r.
      replace (k + 1 - 1) with k by lia. rewrite ?Hlf. rewrite <- !app_assoc.
      do 4 f_equal. f_equal. f_equal. symmetry. exact Hlen_done.
  Qed.

  (* the writer is canonical *)
  Theorem comp_writer_canonical pieces :
    12 + 4 * nblocks BLOCK (len (concat pieces)) < 2 ^ 32 ->
    12 + 4 * nblocks BLOCK (len (concat pieces)) <= lim ->
    exists w1 w2, cw_write_pieces cw_init pieces = (w1, Ok tt) /\ cw_finalize w1 = (w2, Ok tt) /\
                  cw_out w2 = comp_format BLOCK comp (concat pieces).
  Proof.
    intros Hs Hlm.
    destruct (cw_write_pieces_spec pieces [] cw_init (or_introl (conj eq_refl eq_refl))) as (w1 & Hw & HW1).
    cbn [app] in HW1.
    destruct (cw_finalize_spec (concat pieces) w1 HW1 Hs Hlm) as (w2 & Hf & Ho).
    exists w1, w2. auto.
  Qed.
  (* write then read: whatever the pieces, the reader opened on the writer's output behaves as
     a cursor over their concatenation *)
  Variable dec : bytes -> bytes.
  Hypothesis Hcomp : forall x, dec (comp x) = x.
  Notation LIMIT := (@lim LIM).

  Theorem comp_write_read_roundtrip pieces :
    let plain := concat pieces in
    let nb := nblocks BLOCK (len plain) in
    (forall j, j < nb -> len (comp (block_at plain j)) < 2 ^ 32) ->
    12 + 4 * nb <= LIMIT /\ 12 + 4 * nb < 2 ^ 32 -> len plain < 2 ^ 63 ->
    exists w1 w2, cw_write_pieces cw_init pieces = (w1, Ok tt) /\ cw_finalize w1 = (w2, Ok tt) /\
      exists R, Refines (CompReader BLOCK dec (Cursor (cw_out w2))) plain R /\
        exists c, comp_open LIMIT (Cursor (cw_out w2)) (fun i => (i, Ok tt)) 0 = (c, Ok tt) /\ R c 0.
  Proof.
    intros plain nb Hcs Hlim HL.
    destruct (comp_writer_canonical pieces ltac:(apply Hlim) ltac:(apply Hlim)) as (w1 & w2 & Hw & Hf & Ho).
    exists w1, w2. split; [exact Hw|]. split; [exact Hf|].
    fold plain in Ho. rewrite Ho.
    pose proof (cursor_refines (comp_format BLOCK comp plain)) as HC.
    eexists. split.
    - apply (comp_reader_refines BLOCK LIMIT HB HB32 comp dec Hcomp _ plain Hlim HL _ HC).
    - apply (comp_open_spec BLOCK LIMIT HB HB32 comp dec Hcomp _ plain Hcs Hlim HL _ HC
               (fun i => (i, Ok tt)) 0 0 0); [reflexivity | reflexivity |].
      exists 0. split; [reflexivity | lia].
  Qed.
End WriterProofs.
