(* SrcTie2.v — Tie A, decision logic: the ArchiveWriter methods, the two state-check macros and
   ArchiveFileBlock::dump as re-translated from /repo by tools/src2v2.py (gen/Src2.v) SIMULATE
   the hand-written model Writer.v, under the representation invariant RInv of the Rust data.
   An edit of the guard order, of a guard, of a state update or of a match arm of these
   functions changes the generated definition and one of these proofs stops compiling. *)
From MLA Require Import Limit.
From MLA Require Import Base Stream Blocks Writer.
From MLAGen Require Src2.
From Coq Require Import ZifyBool ZifyNat ZifyN.
Open Scope N_scope.

(* ---------- the association-list operations of gen/Src2.v are the model's ---------- *)
Lemma hm_get_alookup {V} (m : list (N * V)) k : Src2.hm_get m k = alookup m k.
Proof. induction m as [|[k' v] r IH]; cbn [Src2.hm_get alookup]; [reflexivity|]. now rewrite IH. Qed.
Lemma hm_remove_aremove {V} (m : list (N * V)) k : Src2.hm_remove m k = aremove m k.
Proof. induction m as [|[k' v] r IH]; cbn [Src2.hm_remove aremove]; [reflexivity|]. now rewrite IH. Qed.
Lemma hm_set_aupdate {V} (m : list (N * V)) k v f :
  Src2.hm_get m k = Some v -> Src2.hm_set m k (f v) = aupdate m k f.
Proof.
  induction m as [|[k' v'] r IH]; cbn [Src2.hm_get Src2.hm_set aupdate]; [discriminate|].
  destruct (k' =? k); [now intros [= ->] | intros Hg; now rewrite IH].
Qed.
Lemma hm_set_fst {V} (m : list (N * V)) k v : map fst (Src2.hm_set m k v) = map fst m.
Proof.
  induction m as [|[k' v'] r IH]; cbn [Src2.hm_set map]; [reflexivity|].
  destruct (N.eqb_spec k' k); cbn [map fst]; [now subst | now rewrite IH].
Qed.
Lemma hm_get_set_same {V} (m : list (N * V)) k v k2 :
  Src2.hm_contains_key (Src2.hm_set m k v) k2 = Src2.hm_contains_key m k2.
Proof.
  unfold Src2.hm_contains_key.
  induction m as [|[k' v'] r IH]; cbn [Src2.hm_set Src2.hm_get]; [reflexivity|].
  destruct (N.eqb_spec k' k) as [->|Hne]; cbn [Src2.hm_get].
  - destruct (k =? k2); reflexivity.
  - destruct (k' =? k2); [reflexivity | apply IH].
Qed.
Lemma hm_contains_app {V} (m : list (N * V)) k v k2 :
  Src2.hm_contains_key (m ++ [(k, v)]) k2 = Src2.hm_contains_key m k2 || (k =? k2).
Proof.
  unfold Src2.hm_contains_key.
  induction m as [|[k' v'] r IH]; cbn [app Src2.hm_get].
  - destruct (k =? k2); reflexivity.
  - destruct (k' =? k2); [reflexivity | apply IH].
Qed.
Lemma vec_contains_keys {V} (m : list (N * V)) k :
  Src2.vec_contains (map fst m) k = Src2.hm_contains_key m k.
Proof.
  unfold Src2.vec_contains, Src2.hm_contains_key.
  induction m as [|[k' v] r IH]; cbn [map fst existsb Src2.hm_get]; [reflexivity|].
  destruct (k' =? k); cbn [orb]; [reflexivity | apply IH].
Qed.
Lemma vec_remove_keys {V} (m : list (N * V)) k :
  Src2.vec_remove_item (map fst m) k = map fst (Src2.hm_remove m k).
Proof.
  induction m as [|[k' v] r IH]; cbn [map fst Src2.vec_remove_item Src2.hm_remove]; [reflexivity|].
  destruct (k' =? k); cbn [map fst]; [reflexivity | now rewrite IH].
Qed.
Lemma hm_contains_remove {V} (m : list (N * V)) k k2 :
  Src2.hm_contains_key (Src2.hm_remove m k) k2 = true -> Src2.hm_contains_key m k2 = true.
Proof.
  unfold Src2.hm_contains_key.
  induction m as [|[k' v] r IH]; cbn [Src2.hm_remove Src2.hm_get]; [easy|].
  destruct (k' =? k) eqn:E1; cbn [Src2.hm_get].
  - destruct (k' =? k2); [reflexivity | easy].
  - destruct (k' =? k2); [reflexivity | apply IH].
Qed.
Lemma smap_contains_name_used {V} (m : list (bytes * V)) n :
  Src2.smap_contains_key m n = existsb (fun e => bytes_eqb (fst e) n) m.
Proof. reflexivity. Qed.

Section TieWriter.
  Context {LIM : Limit}.
  Variable FNMAX : N.
  Variables T_START T_CONTENT T_EOA T_EOF : N.
  Variable H : bytes -> bytes.
  Variable order : footer -> footer.

  Notation wstate := wstate.
  Notation w_start := (w_start FNMAX T_START T_CONTENT T_EOA T_EOF).
  Notation w_append := (w_append T_CONTENT).
  Notation w_end := (w_end T_START T_CONTENT T_EOA T_EOF H).
  Notation w_finalize := (w_finalize_with T_START T_CONTENT T_EOA T_EOF order).

  (* ---------- abstraction of the Rust data to the model's writer state ---------- *)
  Definition absFI (f : Src2.FileInfo) : finfo := mkFI (Src2.offsets f) (Src2.size f) (Src2.eof_offset f).
  Definition absIds (m : list (N * Src2.FileInfo)) : list (N * finfo) := map (fun e => (fst e, absFI (snd e))) m.
  Definition absW (s : Src2.ArchiveWriter) : wstate :=
    mkW (Src2.dest s)
        (match Src2.state s with Src2.Finalized => true | _ => false end)
        (match Src2.state s with Src2.OpenedFiles _ hashes => hashes | Src2.Finalized => [] end)
        (Src2.files_info s) (absIds (Src2.ids_info s)) (Src2.next_id s) (Src2.current_id s).

  (* representation invariant: `ids` lists the keys of `hashes`; every opened id has a FileInfo;
     ids are below next_id *)
  Definition RInv (s : Src2.ArchiveWriter) : Prop :=
    match Src2.state s with
    | Src2.OpenedFiles ids hashes =>
      ids = map fst hashes /\
      (forall k, Src2.hm_contains_key hashes k = true -> Src2.hm_contains_key (Src2.ids_info s) k = true)
    | Src2.Finalized => True
    end /\
    (forall k, Src2.hm_contains_key (Src2.ids_info s) k = true -> k < Src2.next_id s).

  Definition resu (r : res unit) : res N :=
    match r with Ok _ => Ok 0 | Err e => Err e | Crash c => Crash c end.
  (* io::ErrorKind::UnexpectedEof of `dump` is the model's EShortSource *)
  Definition resu_short (r : res unit) : res N :=
    match r with Ok _ => Ok 0 | Err EUnexpectedEof => Err EShortSource | Err e => Err e | Crash c => Crash c end.

  (* ArchiveFooter::serialize_into as the primitive of Src2.finalize: the three outcomes of the
     translated function (SrcTie3Reader.footer_serialize_into_src: Src3d.footer_serialize_into IS
     this when the join succeeds -- SrcTie3Footer.footer_ser_src, under the invariant FInv): bincode
     limit (nothing written), u32 length (map written), success *)
  Definition footer_ser (d : bytes) (fi : list (bytes * N)) (ii : list (N * Src2.FileInfo)) : bytes * res unit :=
    let fm := ser_footer_map (order (w_footer (mkW [] false [] fi (absIds ii) 0 0))) in
    if lim <? len fm then (d, Err EDeser)
    else if 2 ^ 32 <=? len fm then (d ++ fm, Err EDeser)
    else (d ++ ser_footer (order (w_footer (mkW [] false [] fi (absIds ii) 0 0))), Ok tt).

  Notation g_dump := (Src2.dump FNMAX T_START T_CONTENT T_EOA T_EOF).
  Notation g_start := (Src2.start_file FNMAX T_START T_CONTENT T_EOA T_EOF).
  Notation g_append := (Src2.append_file_content FNMAX T_START T_CONTENT T_EOA T_EOF).
  Notation g_end := (Src2.end_file FNMAX T_START T_CONTENT T_EOA T_EOF H).
  Notation g_finalize := (Src2.finalize FNMAX T_START T_CONTENT T_EOA T_EOF footer_ser (fun _ => Ok tt)).

  Lemma absIds_lookup m k : alookup (absIds m) k = option_map absFI (Src2.hm_get m k).
  Proof.
    unfold absIds. induction m as [|[k' v] r IH]; cbn [map alookup Src2.hm_get fst snd option_map]; [reflexivity|].
    destruct (k' =? k); [reflexivity | apply IH].
  Qed.
  Lemma absIds_set m k v f :
    Src2.hm_get m k = Some v -> forall v', absFI v' = f (absFI v) ->
    absIds (Src2.hm_set m k v') = aupdate (absIds m) k f.
  Proof.
    intros Hg v' Hv. unfold absIds.
    induction m as [|[k' v0] r IH]; cbn [Src2.hm_get Src2.hm_set map aupdate fst snd] in *; [discriminate|].
    destruct (k' =? k).
    - injection Hg as ->. cbn [map fst snd]. now rewrite Hv.
    - cbn [map fst snd]. now rewrite IH.
  Qed.
  Lemma absIds_app m k v : absIds (m ++ [(k, v)]) = absIds m ++ [(k, absFI v)].
  Proof. unfold absIds. now rewrite map_app. Qed.

  (* ---------- ArchiveFileBlock::dump = the model's ser_block ---------- *)
  Notation ser_block := (ser_block T_START T_CONTENT T_EOA T_EOF).
  Lemma dump_start d name id : len name <= FNMAX ->
    g_dump (Src2.BkFileStart name id) d = (d ++ ser_block (BStart id name), [], Ok tt).
  Proof.
    intros Hn. cbn [Src2.dump ser_block]. destruct (N.ltb_spec FNMAX (len name)); [lia|].
    unfold le64. now rewrite <- !app_assoc.
  Qed.
  Lemma dump_start_long d name id : FNMAX < len name ->
    snd (g_dump (Src2.BkFileStart name id) d) = Err ENameTooLong.
  Proof. intros Hn. cbn [Src2.dump]. destruct (N.ltb_spec FNMAX (len name)); [reflexivity | lia]. Qed.
  Lemma dump_eof d id h : g_dump (Src2.BkEndOfFile id h) d = (d ++ ser_block (BEof id h), [], Ok tt).
  Proof. cbn [Src2.dump ser_block]. unfold le64. now rewrite <- !app_assoc. Qed.
  Lemma dump_end d : g_dump Src2.BkEndOfArchiveData d = (d ++ ser_block BEnd, [], Ok tt).
  Proof. reflexivity. Qed.
  Lemma dump_content d id size src :
    g_dump (Src2.BkFileContent id size (Some src)) d =
    (d ++ [T_CONTENT] ++ le64 id ++ le64 size ++ takeN size src, takeN size src,
     if len src <? size then Err EUnexpectedEof else Ok tt).
  Proof.
    cbn [Src2.dump]. rewrite len_takeN. unfold le64. cbn [app].
    destruct (N.ltb_spec (len src) size) as [Hlt|Hge].
    - destruct (N.eqb_spec (N.min size (len src)) size); [lia|]. cbn [negb]. now rewrite <- !app_assoc.
    - destruct (N.eqb_spec (N.min size (len src)) size); [|lia]. cbn [negb]. now rewrite <- !app_assoc.
  Qed.
  (* complete content blocks are the model's BContent blocks *)
  Lemma dump_content_block d id src :
    fst (fst (g_dump (Src2.BkFileContent id (len src) (Some src)) d)) = d ++ ser_block (BContent id src).
  Proof. rewrite dump_content. cbn [fst ser_block]. rewrite takeN_all by lia. reflexivity. Qed.

  Lemma mark_cont_proj a id : w_out (mark_cont a id) = w_out a /\ w_open (mark_cont a id) = w_open a.
  Proof. unfold mark_cont. destruct (id =? w_cur a); split; reflexivity. Qed.

  (* ---------- the three bookkeeping helpers ---------- *)
  Lemma mark_cont_sim s id : Src2.hm_contains_key (Src2.ids_info s) id = true ->
    exists s', Src2.mark_continuous_block s id = (s', Ok tt) /\ absW s' = mark_cont (absW s) id /\
               Src2.state s' = Src2.state s /\ Src2.dest s' = Src2.dest s /\ Src2.next_id s' = Src2.next_id s /\
               (forall k, Src2.hm_contains_key (Src2.ids_info s') k = Src2.hm_contains_key (Src2.ids_info s) k).
  Proof.
    intros Hk. unfold Src2.mark_continuous_block, mark_cont. cbn [w_cur absW].
    destruct (id =? Src2.current_id s); cbn [negb].
    - exists s. repeat split; reflexivity.
    - unfold Src2.hm_contains_key in Hk. destruct (Src2.hm_get (Src2.ids_info s) id) as [fi|] eqn:Hg; [|discriminate].
      eexists. split; [reflexivity|]. split; [|repeat split; cbn; auto using hm_get_set_same].
      unfold absW. cbn [Src2.dest Src2.state Src2.files_info Src2.ids_info Src2.next_id Src2.current_id
                        Src2.set_ids_info Src2.set_current_id w_out w_final w_open w_files w_ids w_next w_pos].
      f_equal. apply absIds_set with (v := fi); [exact Hg | reflexivity].
  Qed.
  Lemma mark_eof_sim s id : Src2.hm_contains_key (Src2.ids_info s) id = true ->
    exists s', Src2.mark_eof s id = (s', Ok tt) /\
      absW s' = mkW (w_out (absW s)) (w_final (absW s)) (w_open (absW s)) (w_files (absW s))
                    (aupdate (w_ids (absW s)) id (fun fi => mkFI (fi_offsets fi) (fi_size fi) (w_pos (absW s))))
                    (w_next (absW s)) (w_cur (absW s)) /\
      Src2.state s' = Src2.state s /\ Src2.dest s' = Src2.dest s /\ Src2.next_id s' = Src2.next_id s /\
      (forall k, Src2.hm_contains_key (Src2.ids_info s') k = Src2.hm_contains_key (Src2.ids_info s) k).
  Proof.
    intros Hk. unfold Src2.mark_eof.
    unfold Src2.hm_contains_key in Hk. destruct (Src2.hm_get (Src2.ids_info s) id) as [fi|] eqn:Hg; [|discriminate].
    eexists. split; [reflexivity|]. split; [|repeat split; cbn; auto using hm_get_set_same].
    unfold absW. cbn [Src2.dest Src2.state Src2.files_info Src2.ids_info Src2.next_id Src2.current_id
                      Src2.set_ids_info w_out w_final w_open w_files w_ids w_next w_cur w_pos].
    f_equal. apply absIds_set with (v := fi); [exact Hg | reflexivity].
  Qed.
  Lemma extend_size_sim s id n : Src2.hm_contains_key (Src2.ids_info s) id = true ->
    exists s', Src2.extend_file_size s id n = (s', Ok tt) /\
      absW s' = mkW (w_out (absW s)) (w_final (absW s)) (w_open (absW s)) (w_files (absW s))
                    (aupdate (w_ids (absW s)) id (fun fi => mkFI (fi_offsets fi) (fi_size fi + n) (fi_eof fi)))
                    (w_next (absW s)) (w_cur (absW s)) /\
      Src2.state s' = Src2.state s /\ Src2.dest s' = Src2.dest s /\ Src2.next_id s' = Src2.next_id s /\
      (forall k, Src2.hm_contains_key (Src2.ids_info s') k = Src2.hm_contains_key (Src2.ids_info s) k).
  Proof.
    intros Hk. unfold Src2.extend_file_size.
    unfold Src2.hm_contains_key in Hk. destruct (Src2.hm_get (Src2.ids_info s) id) as [fi|] eqn:Hg; [|discriminate].
    eexists. split; [reflexivity|]. split; [|repeat split; cbn; auto using hm_get_set_same].
    unfold absW. cbn [Src2.dest Src2.state Src2.files_info Src2.ids_info Src2.next_id Src2.current_id
                      Src2.set_ids_info w_out w_final w_open w_files w_ids w_next w_cur w_pos].
    f_equal. apply absIds_set with (v := fi); [exact Hg | reflexivity].
  Qed.

  Ltac projs := cbn [Src2.dest Src2.state Src2.files_info Src2.ids_info Src2.next_id Src2.current_id
      Src2.set_ids_info Src2.set_current_id Src2.set_dest Src2.set_state Src2.set_files_info Src2.set_next_id].
  Ltac absw := unfold absW; cbn [Src2.dest Src2.state Src2.files_info Src2.ids_info Src2.next_id Src2.current_id
      Src2.set_ids_info Src2.set_current_id Src2.set_dest Src2.set_state Src2.set_files_info Src2.set_next_id
      w_out w_final w_open w_files w_ids w_next w_cur w_pos].

  (* ---------- start_file ---------- *)
  Theorem start_file_sim s name : RInv s ->
    let '(s', r) := g_start s name in
    absW s' = fst (w_start (absW s) name) /\ r = snd (w_start (absW s) name) /\ RInv s'.
  Proof.
    intros [Hst Hlt]. unfold Src2.start_file, Writer.w_start.
    destruct (Src2.state s) as [ids hashes|] eqn:Est.
    2:{ absw. rewrite Est. cbn [fst snd]. repeat split; [|exact Hlt]. unfold RInv. now rewrite Est. }
    destruct Hst as [Hids Hsub].
    replace (w_final (absW s)) with false by (absw; now rewrite Est).
    replace (len name) with (len name) by reflexivity.
    destruct (FNMAX <? len name) eqn:Elen.
    { cbn [fst snd]. repeat split; [|exact Hlt]. unfold RInv. rewrite Est. now split. }
    replace (name_used (w_files (absW s)) name) with (Src2.smap_contains_key (Src2.files_info s) name) by reflexivity.
    destruct (Src2.smap_contains_key (Src2.files_info s) name) eqn:Edup.
    { cbn [fst snd]. repeat split; [|exact Hlt]. unfold RInv. rewrite Est. now split. }
    (* the id is fresh *)
    assert (Hfresh : Src2.hm_contains_key (Src2.ids_info s) (Src2.next_id s) = false).
    { destruct (Src2.hm_contains_key (Src2.ids_info s) (Src2.next_id s)) eqn:E; [|reflexivity]. apply Hlt in E. lia. }
    assert (Hfresh2 : Src2.hm_contains_key hashes (Src2.next_id s) = false).
    { destruct (Src2.hm_contains_key hashes (Src2.next_id s)) eqn:E; [|reflexivity]. apply Hsub in E. congruence. }
    cbn [Src2.dest Src2.state Src2.files_info Src2.ids_info Src2.next_id Src2.current_id
         Src2.set_ids_info Src2.set_current_id Src2.set_dest Src2.set_state Src2.set_files_info Src2.set_next_id].
    rewrite dump_start by (apply N.ltb_ge in Elen; exact Elen).
    cbn [Src2.bindS Src2.dest Src2.state Src2.files_info Src2.ids_info Src2.next_id Src2.current_id
         Src2.set_ids_info Src2.set_current_id Src2.set_dest Src2.set_state Src2.set_files_info Src2.set_next_id].
    rewrite Est. unfold Src2.hm_insert, Src2.smap_insert. rewrite Hfresh, Hfresh2, Edup.
    cbn [fst snd]. split; [|split; [reflexivity|]].
    - unfold emit. absw. rewrite Est, absIds_app. reflexivity.
    - unfold RInv. projs. split; [split|].
      + rewrite Hids, map_app. reflexivity.
      + intros k. rewrite !hm_contains_app. intros Hk. apply orb_true_iff in Hk as [Hk|Hk]; [now rewrite (Hsub _ Hk) | now rewrite Hk, orb_true_r].
      + intros k. rewrite hm_contains_app. intros Hk. apply orb_true_iff in Hk as [Hk|Hk]; [apply Hlt in Hk; lia | lia].
  Qed.

  (* ---------- append_file_content ---------- *)
  Theorem append_file_content_sim s id size src : RInv s ->
    let '(s', r) := g_append s id size src in
    absW s' = fst (w_append (absW s) id size src) /\ resu_short r = snd (w_append (absW s) id size src) /\ RInv s'.
  Proof.
    intros [Hst Hlt]. unfold Src2.append_file_content, Writer.w_append.
    destruct (Src2.state s) as [ids hashes|] eqn:Est.
    2:{ absw. rewrite Est. cbn [fst snd]. repeat split; [|exact Hlt]. unfold RInv. now rewrite Est. }
    destruct Hst as [Hids Hsub].
    replace (w_final (absW s)) with false by (absw; now rewrite Est).
    replace (w_open (absW s)) with hashes by (absw; now rewrite Est).
    rewrite Hids, vec_contains_keys, orb_diag. rewrite <- hm_get_alookup.
    assert (HR : RInv s) by (unfold RInv; rewrite Est; repeat split; assumption).
    unfold Src2.hm_contains_key at 1.
    destruct (Src2.hm_get hashes id) as [hashed|] eqn:Eget; cbn [negb].
    2:{ cbn [fst snd]. split; [reflexivity | split; [reflexivity | exact HR]]. }
    destruct (size =? 0); [cbn [fst snd resu_short]; split; [reflexivity | split; [reflexivity | exact HR]]|].
    assert (Hin : Src2.hm_contains_key (Src2.ids_info s) id = true).
    { apply Hsub. unfold Src2.hm_contains_key. now rewrite Eget. }
    destruct (mark_cont_sim s id Hin) as (s1 & E1 & A1 & St1 & D1 & N1 & K1). rewrite E1. cbn [Src2.bindS].
    assert (Hin1 : Src2.hm_contains_key (Src2.ids_info s1) id = true) by now rewrite K1.
    destruct (extend_size_sim s1 id size Hin1) as (s2 & E2 & A2 & St2 & D2 & N2 & K2). rewrite E2. cbn [Src2.bindS].
    rewrite St2, St1, Est. cbn [Src2.wrap_with_hash]. rewrite Eget.
    rewrite dump_content. unfold Src2.hash_absorb.
    change (Src2.state (Src2.set_dest s2 _)) with (Src2.state s2). rewrite St2, St1, Est, Eget.
    cbn [fst snd]. split; [|split].
    - transitivity (mkW (Src2.dest s2 ++ [T_CONTENT] ++ le64 id ++ le64 size ++ takeN size src) false
                        (Src2.hm_set hashes id (hashed ++ takeN size src))
                        (w_files (absW s2)) (w_ids (absW s2)) (w_next (absW s2)) (w_cur (absW s2))); [reflexivity|].
      rewrite A2. cbn [w_files w_ids w_next w_cur]. rewrite A1.
      rewrite (hm_set_aupdate hashes id hashed (fun h => h ++ takeN size src) Eget).
      rewrite D2, D1.
      destruct (mark_cont_proj (absW s) id) as (Po & Pp).
      assert (Eo : w_open (absW s) = hashes) by (unfold absW; cbn [w_open]; now rewrite Est).
      destruct (len src <? size); cbn [fst]; rewrite Po, Pp, Eo; reflexivity.
    - destruct (len src <? size); reflexivity.
    - unfold RInv. projs. split; [split|].
      + now rewrite hm_set_fst.
      + intros k. rewrite hm_get_set_same, K2, K1. apply Hsub.
      + intros k. rewrite K2, K1, N2, N1. apply Hlt.
  Qed.

  (* ---------- end_file ---------- *)
  Theorem end_file_sim s id : RInv s ->
    let '(s', r) := g_end s id in
    absW s' = fst (w_end (absW s) id) /\ resu r = snd (w_end (absW s) id) /\ RInv s'.
  Proof.
    intros HR. pose proof HR as [Hst Hlt]. unfold Src2.end_file, Writer.w_end.
    destruct (Src2.state s) as [ids hashes|] eqn:Est.
    2:{ replace (w_final (absW s)) with true by (unfold absW; cbn [w_final]; now rewrite Est).
        cbn [fst snd]. split; [reflexivity | split; [reflexivity | exact HR]]. }
    destruct Hst as [Hids Hsub].
    replace (w_final (absW s)) with false by (unfold absW; cbn [w_final]; now rewrite Est).
    replace (w_open (absW s)) with hashes by (unfold absW; cbn [w_open]; now rewrite Est).
    rewrite Hids, vec_contains_keys, orb_diag. rewrite <- (hm_get_alookup hashes id).
    unfold Src2.hm_contains_key at 1.
    destruct (Src2.hm_get hashes id) as [hashed|] eqn:Eget; cbn [negb].
    2:{ cbn [fst snd]. split; [reflexivity | split; [reflexivity | exact HR]]. }
    assert (Hin : Src2.hm_contains_key (Src2.ids_info s) id = true).
    { apply Hsub. unfold Src2.hm_contains_key. now rewrite Eget. }
    set (s9 := Src2.set_state s (Src2.OpenedFiles (Src2.vec_remove_item (map fst hashes) id) (Src2.hm_remove hashes id))).
    destruct (mark_cont_sim s9 id Hin) as (s11 & E1 & A1 & St1 & D1 & N1 & K1). rewrite E1. cbn [Src2.bindS].
    assert (Hin1 : Src2.hm_contains_key (Src2.ids_info s11) id = true) by (rewrite K1; exact Hin).
    destruct (mark_eof_sim s11 id Hin1) as (s12 & E2 & A2 & St2 & D2 & N2 & K2). rewrite E2. cbn [Src2.bindS].
    rewrite dump_eof. cbn [fst snd resu]. split; [|split; [reflexivity|]].
    - transitivity (mkW (Src2.dest s12 ++ ser_block (BEof id (H hashed))) (w_final (absW s12)) (w_open (absW s12))
                        (w_files (absW s12)) (w_ids (absW s12)) (w_next (absW s12)) (w_cur (absW s12))); [reflexivity|].
      rewrite A2, D2. cbn [w_final w_open w_files w_ids w_next w_cur w_out]. rewrite A1.
      replace (Src2.dest s11) with (w_out (absW s11)) by reflexivity. rewrite A1.
      assert (E9 : absW s9 = mkW (w_out (absW s)) false (aremove hashes id) (w_files (absW s)) (w_ids (absW s))
                                 (w_next (absW s)) (w_cur (absW s))).
      { unfold s9, absW. projs. cbn [w_out w_files w_ids w_next w_cur]. now rewrite hm_remove_aremove. }
      rewrite E9. unfold emit, mark_cont, w_pos. cbn [w_out w_final w_open w_files w_ids w_next w_cur].
      assert (Eo : w_open (absW s) = hashes) by (unfold absW; cbn [w_open]; now rewrite Est).
      assert (Ef : w_final (absW s) = false) by (unfold absW; cbn [w_final]; now rewrite Est).
      destruct (id =? w_cur (absW s)); cbn [w_out w_final w_open w_files w_ids w_next w_cur]; rewrite ?Eo, ?Ef; reflexivity.
    - unfold RInv. change (Src2.state (Src2.set_dest s12 _)) with (Src2.state s12).
      change (Src2.ids_info (Src2.set_dest s12 _)) with (Src2.ids_info s12).
      change (Src2.next_id (Src2.set_dest s12 _)) with (Src2.next_id s12).
      rewrite St2, St1. unfold s9 at 1. projs. split; [split|].
      + apply vec_remove_keys.
      + intros k Hk. rewrite K2, K1. apply Hsub. eapply hm_contains_remove; exact Hk.
      + intros k. rewrite K2, K1, N2, N1. apply Hlt.
  Qed.

  (* ---------- finalize ---------- *)
  Theorem finalize_sim s : RInv s ->
    let '(s', r) := g_finalize s in
    absW s' = fst (w_finalize (absW s)) /\ resu r = snd (w_finalize (absW s)) /\ RInv s'.
  Proof.
    intros HR. pose proof HR as [Hst Hlt]. unfold Src2.finalize, Writer.w_finalize_with.
    destruct (Src2.state s) as [ids hashes|] eqn:Est.
    2:{ replace (w_final (absW s)) with true by (unfold absW; cbn [w_final]; now rewrite Est).
        cbn [fst snd]. split; [reflexivity | split; [reflexivity | exact HR]]. }
    destruct Hst as [Hids Hsub].
    replace (w_final (absW s)) with false by (unfold absW; cbn [w_final]; now rewrite Est).
    replace (w_open (absW s)) with hashes by (unfold absW; cbn [w_open]; now rewrite Est).
    rewrite Hids. destruct hashes as [|[k0 h0] rest]; cbn [map Src2.is_empty negb orb fst].
    2:{ cbn [fst snd]. split; [reflexivity | split; [reflexivity | exact HR]]. }
    rewrite dump_end. projs. cbn [Src2.bindS]. unfold footer_ser. projs. cbv zeta.
    assert (Hfo : w_footer (mkW [] false [] (Src2.files_info s) (absIds (Src2.ids_info s)) 0 0) = w_footer (absW s))
      by (unfold w_footer, absW; reflexivity).
    rewrite Hfo.
    destruct (lim <? len (ser_footer_map (order (w_footer (absW s))))).
    { cbn [Src2.bindS fst snd resu]. split; [|split; [reflexivity|]].
      - unfold absW, w_finalized. projs. cbn [w_out w_files w_ids w_next w_cur]. reflexivity.
      - unfold RInv. projs. split; [exact I | exact Hlt]. }
    destruct (2 ^ 32 <=? len (ser_footer_map (order (w_footer (absW s))))).
    { cbn [Src2.bindS fst snd resu]. split; [|split; [reflexivity|]].
      - unfold absW, w_finalized. projs. cbn [w_out w_files w_ids w_next w_cur]. unfold w_footer. cbn [w_ids w_files].
        now rewrite <- app_assoc.
      - unfold RInv. projs. split; [exact I | exact Hlt]. }
    cbn [Src2.bindS fst snd resu].
    split; [|split; [reflexivity|]].
    - unfold absW. projs. cbn [w_out w_files w_ids w_next w_cur]. unfold w_footer. cbn [w_ids w_files].
      now rewrite <- app_assoc.
    - unfold RInv. projs. split; [exact I | exact Hlt].
  Qed.

  (* the initial value built by ArchiveWriter::from_config satisfies the invariant and is w_init *)
  Lemma RInv_init : RInv (Src2.mkAW [] (Src2.OpenedFiles [] []) [] [] 0 0) /\
                    absW (Src2.mkAW [] (Src2.OpenedFiles [] []) [] [] 0 0) = w_init.
  Proof. split; [|reflexivity]. unfold RInv. cbn. repeat split; intros; discriminate. Qed.
End TieWriter.
