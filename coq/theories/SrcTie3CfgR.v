(* SrcTie3CfgR.v — Tie A level 1 for the CONSTRUCTION paths (work package cfgT), part 2:
   `ArchiveReaderConfig::{new, add_private_keys, load_persistent}`, `ArchiveReader::from_config`,
   `ArchiveFailSafeReader::from_config` (gen/Src3f.v) against ArchiveSrc.v / Config.v.

   The translated functions are parametric in the boxed layer type and in the layer constructors.  Two instances:
     * the model's layers (Config.dynR: Stream + state + initialize; Config.dynF):
         load_persistent_cfg_src      ArchiveReaderConfig::load_persistent = Archive.load_config (on a configuration
                                      that holds no parameters yet: every configuration the builders produce)
         reader_from_config_src       translated = ArchiveSrc.archive_open_src: same parameters, same stream, same
                                      state, same footer, same error — every source stream, state, header, key list
         failsafe_from_config_src     translated = Config.failsafe_open (hence ArchiveSrc.failsafe_repair:
                                      failsafe_repair_src)
     * ANY layer constructors whatsoever (parametricity of the generated text):
         reader_key_check_first_src   with ENCRYPT in the header and no private key the result is the refusal
                                      (PrivateKeyNeeded, or IncoherentPersistentConfig when the header has no
                                      encryption part) WHATEVER the constructors do: none is called, so nothing is
                                      read past the header before the key check (failsafe_key_check_first_src)
         reader_stack_desc_src        with descriptors as layers: the stack is compress-over-encrypt-over-raw,
                                      each iff its bit is in the header byte; reader_mirrors_writer_src: it is
                                      the stack ArchiveWriter::from_config built (Config.wstack_layers) *)
From Coq Require Import ZifyBool ZifyNat ZifyN Lia.
From MLA Require Import Limit.
From MLA Require Import Base Stream EncLayer CompLayer RawLayer LayerStack Blocks Writer Reader Repair Format Ecies
  Archive HeaderStream Run ArchiveSrc CfgPrims Config ConfigProofs SrcTie3Header SrcTie3EncKeys SrcTie3Cfg.
From MLAGen Require Src2 Src3e Src3h Src3f.
Open Scope N_scope.

Lemma reader_new_src :
  Src3f.ArchiveReaderConfig_new = Src3f.mkARC 0 (Src3e.mkERC [] None Src3e.OnlyAuthenticatedData).
Proof. reflexivity. Qed.
(* add_private_keys EXTENDS the candidate list and touches nothing else *)
Lemma add_private_keys_src c keys :
  Src3f.add_private_keys c keys =
  Src3f.mkARC (Src3f.arc_layers_enabled c)
    (Src3e.mkERC (Src3e.erc_private_keys (Src3f.arc_encrypt c) ++ keys) (Src3e.erc_encrypt_parameters (Src3f.arc_encrypt c))
                 (Src3e.erc_failsafe_mode (Src3f.arc_encrypt c))).
Proof. reflexivity. Qed.
(* the invariant of the configurations the public builders produce *)
Definition fresh_rcfg (c : Src3f.ArchiveReaderConfig) : Prop := Src3e.erc_encrypt_parameters (Src3f.arc_encrypt c) = None.
Lemma fresh_new : fresh_rcfg Src3f.ArchiveReaderConfig_new.
Proof. reflexivity. Qed.
Lemma fresh_add c keys : fresh_rcfg c -> fresh_rcfg (Src3f.add_private_keys c keys).
Proof. intros Hc. exact Hc. Qed.

Section Keys.
  Variable dh : bytes -> bytes -> bytes.
  Variable kdf : bytes -> bytes.
  Variables wdec wtag : bytes -> bytes -> bytes.

  (* crypto/ecc.rs retrieve_key over the (public, encrypted_keys) pair of gen/Src3h.v = Ecies.retrieve_key *)
  Definition rk_pair (m : bytes * list (bytes * bytes)) (p : bytes) : res (option bytes) :=
    Ok (retrieve_key dh kdf wdec wtag (mkMulti (fst m) (snd m)) p).

  Lemma first_key_pair m privs :
    first_key _ rk_pair m privs = load_persistent dh kdf wdec wtag (mkMulti (fst m) (snd m)) privs.
  Proof.
    induction privs as [|p r IH]; cbn [first_key load_persistent]; [reflexivity|].
    unfold rk_pair at 1. destruct (retrieve_key dh kdf wdec wtag (mkMulti (fst m) (snd m)) p); [reflexivity | exact IH].
  Qed.

  Definition privs_of (c : Src3f.ArchiveReaderConfig) : list bytes := Src3e.erc_private_keys (Src3f.arc_encrypt c).

  (* ArchiveReaderConfig::load_persistent (+ EncryptionReaderConfig::load_persistent) = Archive.load_config *)
  Theorem load_persistent_cfg_src cfg h : fresh_rcfg cfg ->
    match load_config dh kdf wdec wtag h (privs_of cfg) with
    | Ok (e, c, k, n) =>
      Src3f.ArchiveReaderConfig_load_persistent rk_pair cfg h =
        (Src3f.mkARC (h_layers h) (if e then Src3e.set_erc_encrypt_parameters (Src3f.arc_encrypt cfg) (Some (k, n))
                                   else Src3f.arc_encrypt cfg), COk tt) /\
      e = has_bit (h_layers h) L_ENCRYPT /\ c = has_bit (h_layers h) L_COMPRESS /\ (e = false -> k = [] /\ n = [])
    | Err e => exists cfg' x, Src3f.ArchiveReaderConfig_load_persistent rk_pair cfg h = (cfg', CErr x) /\
                              err_of_Error (Src3f.Error_from_ConfigError x) = e
    | Crash _ => False
    end.
  Proof.
    intros Hf. unfold load_config, Src3f.ArchiveReaderConfig_load_persistent, privs_of.
    cbn [Src3f.set_arc_layers_enabled Src3f.arc_layers_enabled Src3f.arc_encrypt]. rewrite contains_encrypt_src.
    destruct (has_bit (h_layers h) L_ENCRYPT) eqn:He.
    - destruct (h_enc h) as [eh|].
      + rewrite (load_persistent_gen_src _ rk_pair _ _ _ Hf), first_key_pair. cbn [fst snd].
        destruct (Src3e.erc_private_keys (Src3f.arc_encrypt cfg)) as [|p r].
        * eexists _, _. split; reflexivity.
        * destruct (load_persistent dh kdf wdec wtag (mkMulti (eh_public eh) (eh_keys eh)) (p :: r)) as [k|].
          -- repeat split; try reflexivity; discriminate.
          -- eexists _, _. split; reflexivity.
      + eexists _, _. split; reflexivity.
    - repeat split; reflexivity.
  Qed.
End Keys.

Definition mode_unauth (m : Src3e.FailSafeReaderDecryptionMode) : bool :=
  match m with Src3e.DataEvenUnauthenticated => true | Src3e.OnlyAuthenticatedData => false end.

Section Reader.
  Variables CHUNK TAG BLOCK FNMAX CACHE TS TC TA TE : N.
  Notation LIMIT := Src3h.BINCODE_MAX_DESERIALIZE.
  Local Hint Extern 0 Limit => exact LIMIT : typeclass_instances.
  Variable H : bytes -> bytes.
  Variable dh : bytes -> bytes -> bytes.
  Variable kdf : bytes -> bytes.
  Variables wdec wtag : bytes -> bytes -> bytes.
  Variable ksf : bytes -> bytes -> N -> N -> N.
  Variable tagf : bytes -> bytes -> N -> bytes -> bytes.
  Variable dec : bytes -> bytes.
  Variable S0 : Stream.
  Notation rk := (rk_pair dh kdf wdec wtag).

  (* ---------- the model's layers as the boxed layers ---------- *)
  Definition r_enc_new (l : dynR) (ec : Src3e.EncryptionReaderConfig) : res dynR :=
    dyn_enc_new CHUNK TAG ksf tagf l (Src3e.erc_encrypt_parameters ec).
  Definition g_reader_from_config : st S0 -> Src3f.ArchiveReaderConfig -> cres Src3f.Error (Src3f.ArchiveReader dynR) :=
    Src3f.ArchiveReader_from_config rk S0 (RawLayer.rstate S0) dynR (raw_new S0) (raw_reset S0) (dyn_box_raw S0)
      r_enc_new (dyn_comp_new BLOCK LIMIT dec) dyn_initialize (dyn_footer LIMIT) dyn_rewind.

  (* what is compared: the parameters, the stream with its state, the footer *)
  Definition opened_view : Type := oparams * { S : Stream & st S } * footer.
  Definition params_of (cfg : Src3f.ArchiveReaderConfig) : oparams :=
    mkOP (has_bit (Src3f.arc_layers_enabled cfg) L_ENCRYPT) (has_bit (Src3f.arc_layers_enabled cfg) L_COMPRESS)
         (match Src3e.erc_encrypt_parameters (Src3f.arc_encrypt cfg) with Some (k, _) => k | None => [] end)
         (match Src3e.erc_encrypt_parameters (Src3f.arc_encrypt cfg) with Some (_, n) => n | None => [] end) 0.
  Definition view_src (r : Src3f.ArchiveReader dynR) : opened_view :=
    (params_of (Src3f.ar_config _ r), existT _ (dr_S (Src3f.ar_src _ r)) (dr_st (Src3f.ar_src _ r)),
     match Src3f.ar_metadata _ r with Some m => m | None => [] end).
  Definition view_model (o : opened_src CHUNK TAG BLOCK ksf tagf dec S0) : opened_view :=
    (projT1 o, existT _ (stack_src CHUNK TAG BLOCK ksf tagf dec S0 (projT1 o)) (Reader.r_src (projT2 o)), Reader.r_meta (projT2 o)).
  Definition res_map {A B} (f : A -> B) (r : res A) : res B :=
    match r with Ok a => Ok (f a) | Err e => Err e | Crash c => Crash c end.

  Lemma enc_init_over_raw ks tagc (e : estate (RawReader S0)) :
    enc_init_over CHUNK TAG (RawReader S0) (raw_initialize S0) ks tagc e = enc_initialize CHUNK TAG ks tagc S0 e.
  Proof. destruct e as [i cache cpos chunk]. reflexivity. Qed.
  Lemma comp_initialize_ext (I : Stream) (f g : st I -> st I * res unit) c :
    (forall i, f i = g i) -> comp_initialize LIMIT I f c = comp_initialize LIMIT I g c.
  Proof.
    intros Hfg. unfold comp_initialize. destruct (c_state c); try reflexivity.
    unfold read_sizes_info. rewrite Hfg. reflexivity.
  Qed.

  Theorem reader_from_config_src (s0 : st S0) cfg : fresh_rcfg cfg ->
    to_res err_of_Error (cmap view_src (g_reader_from_config s0 cfg)) =
    res_map view_model (archive_open_src CHUNK TAG BLOCK LIMIT dh kdf wdec wtag ksf tagf dec S0 s0 (privs_of cfg)).
  Proof.
    intros Hf. unfold g_reader_from_config, Src3f.ArchiveReader_from_config, archive_open_src.
    destruct (sk S0 s0 (FromStart 0)) as [sa [p0|e|x]]; try reflexivity.
    rewrite header_from_src.
    destruct (read_header_s S0 LIMIT sa) as [s1 [h|e|x]]; try reflexivity.
    pose proof (load_persistent_cfg_src dh kdf wdec wtag cfg h Hf) as Hl.
    destruct (load_config dh kdf wdec wtag h (privs_of cfg)) as [[[[e c] k] n]|e|x]; [| |contradiction].
    2:{ destruct Hl as (cfg' & x & -> & Hx). cbn [cmap to_res bind res_map]. rewrite Hx. reflexivity. }
    destruct Hl as (-> & He & Hc & Hkn). cbn [bind].
    unfold open_stack_src, raw_open.
    destruct (raw_reset S0 (raw_new S0 s1)) as [r [[]|e'|x]]; cbn [lift bind cmap to_res res_map]; try reflexivity.
    cbn [Src3f.arc_layers_enabled Src3f.arc_encrypt]. rewrite contains_encrypt_src, contains_compress_src, <- He, <- Hc.
    unfold ropen, view_src, view_model, params_of, stack_src, StackSrc, EncSrc, RawSrc, dyn_box_raw.
    destruct e, c; cbn [op_enc op_comp op_key op_nonce cres_of cbind].
    - (* encrypt + compress *)
      unfold r_enc_new, dyn_enc_new. cbn [Src3e.set_erc_encrypt_parameters Src3e.erc_encrypt_parameters cres_of cbind].
      unfold dyn_comp_new, comp_open. cbn [dr_S dr_st dr_init].
      destruct (comp_new (EncReader CHUNK TAG (ksf k n) (tagf k n) (RawReader S0)) (@mkE (RawReader S0) r [] 0 0)) as [c0 [[]|e'|x]];
        cbn [cres_of cbind lift bind cmap to_res res_map]; try reflexivity.
      unfold dyn_initialize. cbn [dr_S dr_st dr_init dyn_set].
      rewrite (comp_initialize_ext (EncReader CHUNK TAG (ksf k n) (tagf k n) (RawReader S0))
                 (enc_init_over CHUNK TAG (RawReader S0) (raw_initialize S0) (ksf k n) (tagf k n))
                 (enc_initialize CHUNK TAG (ksf k n) (tagf k n) S0) c0 (enc_init_over_raw _ _)).
      destruct (comp_initialize LIMIT (EncReader CHUNK TAG (ksf k n) (tagf k n) (RawReader S0))
                  (enc_initialize CHUNK TAG (ksf k n) (tagf k n) S0) c0) as [c1 [[]|e'|x]];
        cbn [lift bind cmap to_res res_map]; try reflexivity.
      unfold dyn_footer. cbn [dr_S dr_st dr_init dyn_set].
      destruct (read_footer (CompReader BLOCK dec (EncReader CHUNK TAG (ksf k n) (tagf k n) (RawReader S0))) c1) as [c2 [m|e'|x]];
        cbn [cmap to_res res_map]; try reflexivity.
      unfold dyn_rewind. cbn [dr_S dr_st dr_init dyn_set].
      destruct (sk (CompReader BLOCK dec (EncReader CHUNK TAG (ksf k n) (tagf k n) (RawReader S0))) c2 (FromStart 0)) as [c3 [p1|e'|x]];
        cbn [cmap to_res res_map bind]; try reflexivity.
      cbn [Src3f.ar_config Src3f.ar_src Src3f.ar_metadata Src3f.arc_layers_enabled Src3f.arc_encrypt
           Src3e.erc_encrypt_parameters Src3e.set_erc_encrypt_parameters dr_S dr_st projT1 projT2 r_src r_meta].
      rewrite <- He, <- Hc. reflexivity.
    - (* encrypt only *)
      unfold r_enc_new, dyn_enc_new. cbn [Src3e.set_erc_encrypt_parameters Src3e.erc_encrypt_parameters cres_of cbind].
      unfold dyn_initialize, enc_open. cbn [dr_S dr_st dr_init dyn_set enc_init_over e_in e_cache e_cpos e_chunk raw_initialize].
      destruct (eseek_start CHUNK TAG (ksf k n) (tagf k n) (RawReader S0) (@mkE (RawReader S0) r [] 0 0) 0) as [e1 [p1|e'|x]];
        cbn [lift bind cmap to_res res_map]; try reflexivity.
      unfold dyn_footer. cbn [dr_S dr_st dr_init dyn_set].
      destruct (read_footer (EncReader CHUNK TAG (ksf k n) (tagf k n) (RawReader S0)) e1) as [e2 [m|e'|x]];
        cbn [cmap to_res res_map]; try reflexivity.
      unfold dyn_rewind. cbn [dr_S dr_st dr_init dyn_set].
      destruct (sk (EncReader CHUNK TAG (ksf k n) (tagf k n) (RawReader S0)) e2 (FromStart 0)) as [e3 [p2|e'|x]];
        cbn [cmap to_res res_map bind]; try reflexivity.
      cbn [Src3f.ar_config Src3f.ar_src Src3f.ar_metadata Src3f.arc_layers_enabled Src3f.arc_encrypt
           Src3e.erc_encrypt_parameters Src3e.set_erc_encrypt_parameters dr_S dr_st projT1 projT2 r_src r_meta].
      rewrite <- He, <- Hc. reflexivity.
    - (* compress only *)
      destruct (Hkn eq_refl) as [-> ->].
      unfold dyn_comp_new, comp_open, dyn_box_raw. cbn [dr_S dr_st dr_init].
      destruct (comp_new (RawReader S0) r) as [c0 [[]|e'|x]]; cbn [cres_of cbind lift bind cmap to_res res_map]; try reflexivity.
      unfold dyn_initialize. cbn [dr_S dr_st dr_init dyn_set].
      destruct (comp_initialize LIMIT (RawReader S0) (raw_initialize S0) c0) as [c1 [[]|e'|x]];
        cbn [lift bind cmap to_res res_map]; try reflexivity.
      unfold dyn_footer. cbn [dr_S dr_st dr_init dyn_set].
      destruct (read_footer (CompReader BLOCK dec (RawReader S0)) c1) as [c2 [m|e'|x]]; cbn [cmap to_res res_map]; try reflexivity.
      unfold dyn_rewind. cbn [dr_S dr_st dr_init dyn_set].
      destruct (sk (CompReader BLOCK dec (RawReader S0)) c2 (FromStart 0)) as [c3 [p1|e'|x]];
        cbn [cmap to_res res_map bind]; try reflexivity.
      cbn [Src3f.ar_config Src3f.ar_src Src3f.ar_metadata Src3f.arc_layers_enabled Src3f.arc_encrypt dr_S dr_st projT1 projT2 r_src r_meta].
      rewrite <- He, <- Hc, Hf. reflexivity.
    - (* no layer *)
      destruct (Hkn eq_refl) as [-> ->].
      unfold dyn_initialize, dyn_box_raw. cbn [dr_S dr_st dr_init dyn_set raw_initialize lift bind].
      unfold dyn_footer. cbn [dr_S dr_st dr_init dyn_set].
      destruct (read_footer (RawReader S0) r) as [r2 [m|e'|x]]; cbn [cmap to_res res_map]; try reflexivity.
      unfold dyn_rewind. cbn [dr_S dr_st dr_init dyn_set].
      destruct (sk (RawReader S0) r2 (FromStart 0)) as [r3 [p1|e'|x]]; cbn [cmap to_res res_map bind]; try reflexivity.
      cbn [Src3f.ar_config Src3f.ar_src Src3f.ar_metadata Src3f.arc_layers_enabled Src3f.arc_encrypt dr_S dr_st projT1 projT2 r_src r_meta].
      rewrite <- He, <- Hc, Hf. reflexivity.
  Qed.

  (* ---------- fail-safe ---------- *)
  Variable FsCompOver : Stream -> Stream.
  Variable fscomp_open : forall I : Stream, st I -> res (st (FsCompOver I)).
  Definition f_enc_new (l : dynF) (ec : Src3e.EncryptionReaderConfig) : res dynF :=
    dynf_enc_new CHUNK TAG ksf tagf l (Src3e.erc_encrypt_parameters ec) (mode_unauth (Src3e.erc_failsafe_mode ec)).
  Definition g_failsafe_from_config : st S0 -> Src3f.ArchiveReaderConfig -> cres Src3f.Error (Src3f.ArchiveFailSafeReader dynF) :=
    Src3f.ArchiveFailSafeReader_from_config rk S0 dynF (dynf_raw S0) f_enc_new (dynf_comp_new FsCompOver fscomp_open).

  Theorem failsafe_from_config_src (s0 : st S0) cfg : fresh_rcfg cfg ->
    to_res err_of_Error (cmap (Src3f.afs_src dynF) (g_failsafe_from_config s0 cfg)) =
    failsafe_open CHUNK TAG LIMIT dh kdf wdec wtag ksf tagf S0 FsCompOver fscomp_open s0 (privs_of cfg)
                  (mode_unauth (Src3e.erc_failsafe_mode (Src3f.arc_encrypt cfg))).
  Proof.
    intros Hf. unfold g_failsafe_from_config, Src3f.ArchiveFailSafeReader_from_config, failsafe_open.
    rewrite header_from_src.
    destruct (read_header_s S0 LIMIT s0) as [s1 [h|e|x]]; try reflexivity.
    pose proof (load_persistent_cfg_src dh kdf wdec wtag cfg h Hf) as Hl.
    destruct (load_config dh kdf wdec wtag h (privs_of cfg)) as [[[[e c] k] n]|e|x]; [| |contradiction].
    2:{ destruct Hl as (cfg' & x & -> & Hx). cbn [cmap to_res bind]. rewrite Hx. reflexivity. }
    destruct Hl as (-> & He & Hc & Hkn). cbn [bind].
    cbn [Src3f.arc_layers_enabled Src3f.arc_encrypt]. rewrite contains_encrypt_src, contains_compress_src, <- He, <- Hc.
    destruct e.
    - unfold f_enc_new. cbn [Src3e.set_erc_encrypt_parameters Src3e.erc_encrypt_parameters Src3e.erc_failsafe_mode].
      destruct (dynf_enc_new CHUNK TAG ksf tagf (dynf_raw S0 s1) (Some (k, n)) _) as [l1|e'|x];
        cbn [cres_of cbind bind cmap to_res]; try reflexivity.
      destruct c; cbn [cres_of cbind cmap to_res]; [|reflexivity].
      destruct (dynf_comp_new FsCompOver fscomp_open l1) as [l2|e'|x]; reflexivity.
    - cbn [cbind bind]. destruct c; cbn [cres_of cbind cmap to_res]; [|reflexivity].
      destruct (dynf_comp_new FsCompOver fscomp_open (dynf_raw S0 s1)) as [l2|e'|x]; reflexivity.
  Qed.

  (* ArchiveSrc.failsafe_repair opens with the TRANSLATED from_config *)
  Corollary failsafe_repair_src (s0 : st S0) cfg fuel : fresh_rcfg cfg ->
    failsafe_repair CHUNK TAG LIMIT FNMAX CACHE TS TC TA TE H dh kdf wdec wtag ksf tagf S0 FsCompOver fscomp_open
                    s0 (privs_of cfg) (mode_unauth (Src3e.erc_failsafe_mode (Src3f.arc_encrypt cfg))) fuel =
    do l <- to_res err_of_Error (cmap (Src3f.afs_src dynF) (g_failsafe_from_config s0 cfg));
    repair FNMAX CACHE TS TC TA TE H (projT1 l) fuel (projT2 l) w_init.
  Proof.
    intros Hf. rewrite (failsafe_from_config_src s0 cfg Hf).
    exact (failsafe_repair_is_open CHUNK TAG LIMIT FNMAX CACHE TS TC TA TE H dh kdf wdec wtag ksf tagf S0 FsCompOver fscomp_open
             s0 (privs_of cfg) _ fuel).
  Qed.
End Reader.

(* ---------- ANY layer constructors: the key check comes first ---------- *)
Section AnyLayers.
  Variable retrieve_key : (bytes * list (bytes * bytes)) -> bytes -> res (option bytes).
  Variable S0 : Stream.
  Variables RAW LR LF : Type.
  Variable raw_new : st S0 -> RAW.
  Variable raw_reset : RAW -> RAW * res unit.
  Variable box_raw : RAW -> LR.
  Variable enc_new : LR -> Src3e.EncryptionReaderConfig -> res LR.
  Variable comp_new : LR -> res LR.
  Variable l_init : LR -> LR * res unit.
  Variable l_footer : LR -> LR * res footer.
  Variable l_rewind : LR -> LR * res N.
  Variable fraw_new : st S0 -> LF.
  Variable fenc_new : LF -> Src3e.EncryptionReaderConfig -> res LF.
  Variable fcomp_new : LF -> res LF.
  Notation g_reader := (Src3f.ArchiveReader_from_config retrieve_key S0 RAW LR raw_new raw_reset box_raw enc_new comp_new l_init l_footer l_rewind).
  Notation g_failsafe := (Src3f.ArchiveFailSafeReader_from_config retrieve_key S0 LF fraw_new fenc_new fcomp_new).

  Lemma load_refuses_without_key cfg h :
    has_bit (h_layers h) L_ENCRYPT = true -> Src3e.erc_private_keys (Src3f.arc_encrypt cfg) = [] ->
    exists cfg', Src3f.ArchiveReaderConfig_load_persistent retrieve_key cfg h =
      (cfg', CErr (match h_enc h with Some _ => Src3f.PrivateKeyNotSet | None => Src3f.IncoherentPersistentConfig end)).
  Proof.
    intros He Hk. unfold Src3f.ArchiveReaderConfig_load_persistent.
    cbn [Src3f.set_arc_layers_enabled Src3f.arc_layers_enabled Src3f.arc_encrypt]. rewrite contains_encrypt_src, He.
    destruct (h_enc h) as [eh|]; [|eexists; reflexivity].
    unfold Src3e.load_persistent. rewrite Hk. cbn [Src3e.vec_is_empty]. eexists; reflexivity.
  Qed.

  Definition refusal (h : header) : Src3f.Error :=
    match h_enc h with
    | Some _ => Src3f.PrivateKeyNeeded
    | None => Src3f.ConfigError_ Src3f.IncoherentPersistentConfig
    end.

  (* no private key + ENCRYPT bit in the header read from the source: refused, whatever the layer constructors,
     `initialize`, the footer reader and `rewind` are — none of them runs before the key check *)
  Theorem reader_key_check_first_src (s0 sa s1 : st S0) p0 h cfg :
    sk S0 s0 (FromStart 0) = (sa, Ok p0) -> Src3h.ArchiveHeader_from S0 sa = (s1, Ok h) ->
    has_bit (h_layers h) L_ENCRYPT = true -> Src3e.erc_private_keys (Src3f.arc_encrypt cfg) = [] ->
    g_reader s0 cfg = CErr (refusal h).
  Proof.
    intros Hs Hh He Hk. unfold Src3f.ArchiveReader_from_config. rewrite Hs, Hh.
    destruct (load_refuses_without_key cfg h He Hk) as (cfg' & ->). unfold refusal. destruct (h_enc h); reflexivity.
  Qed.
  Theorem failsafe_key_check_first_src (s0 s1 : st S0) h cfg :
    Src3h.ArchiveHeader_from S0 s0 = (s1, Ok h) ->
    has_bit (h_layers h) L_ENCRYPT = true -> Src3e.erc_private_keys (Src3f.arc_encrypt cfg) = [] ->
    g_failsafe s0 cfg = CErr (refusal h).
  Proof.
    intros Hh He Hk. unfold Src3f.ArchiveFailSafeReader_from_config. rewrite Hh.
    destruct (load_refuses_without_key cfg h He Hk) as (cfg' & ->). unfold refusal. destruct (h_enc h); reflexivity.
  Qed.

  (* without the ENCRYPT bit the encryption constructor is not called and the keys are not consulted; with it,
     the constructor receives the parameters load_persistent stored *)
  Theorem reader_header_errors_first_src (s0 sa s1 : st S0) p0 e cfg :
    sk S0 s0 (FromStart 0) = (sa, Ok p0) -> Src3h.ArchiveHeader_from S0 sa = (s1, Err e) ->
    g_reader s0 cfg = CErr (Src3f.Callee e).
  Proof. intros Hs Hh. unfold Src3f.ArchiveReader_from_config. rewrite Hs, Hh. reflexivity. Qed.
End AnyLayers.

(* ---------- descriptors as layers: which layers, in which order ---------- *)
Section Desc.
  Variable retrieve_key : (bytes * list (bytes * bytes)) -> bytes -> res (option bytes).
  Variable S0 : Stream.
  (* a boxed layer = the list of the layers stacked, top first; the raw layer remembers the source state *)
  Definition g_reader_desc :=
    Src3f.ArchiveReader_from_config retrieve_key S0 (st S0) (list N) (fun s => s) (fun s => (s, Ok tt)) (fun _ => [])
      (fun l _ => Ok (L_ENCRYPT :: l)) (fun l => Ok (L_COMPRESS :: l)) (fun l => (l, Ok tt)) (fun l => (l, Ok []))
      (fun l => (l, Ok 0)).

  Theorem reader_stack_desc_src (s0 sa s1 : st S0) p0 h cfg cfg' :
    sk S0 s0 (FromStart 0) = (sa, Ok p0) -> Src3h.ArchiveHeader_from S0 sa = (s1, Ok h) ->
    Src3f.ArchiveReaderConfig_load_persistent retrieve_key cfg h = (cfg', COk tt) ->
    cmap (Src3f.ar_src (list N)) (g_reader_desc s0 cfg) =
    COk ((if has_bit (h_layers h) L_COMPRESS then [L_COMPRESS] else []) ++
         (if has_bit (h_layers h) L_ENCRYPT then [L_ENCRYPT] else [])).
  Proof.
    intros Hs Hh Hl. unfold g_reader_desc, Src3f.ArchiveReader_from_config. rewrite Hs, Hh, Hl.
    assert (Hlay : Src3f.arc_layers_enabled cfg' = h_layers h).
    { revert Hl. unfold Src3f.ArchiveReaderConfig_load_persistent.
      cbn [Src3f.set_arc_layers_enabled Src3f.arc_layers_enabled Src3f.arc_encrypt].
      destruct (flags_contains (h_layers h) Src3f.Layers_ENCRYPT).
      - destruct (h_enc h); [|discriminate].
        destruct (Src3e.load_persistent _ _ _ _ _) as [ec0 [[]|x0]]; [|discriminate]. intros [= <-]. reflexivity.
      - intros [= <-]. reflexivity. }
    rewrite Hlay, contains_encrypt_src, contains_compress_src.
    destruct (has_bit (h_layers h) L_ENCRYPT), (has_bit (h_layers h) L_COMPRESS); reflexivity.
  Qed.
End Desc.

(* the reader's stack mirrors the writer's: the header the translated writer dumped, read back by the translated
   reader (any source that delivers it, any key list that opens it), yields the layers the writer stacked *)
Section Mirror.
  Variable pubk : bytes -> bytes.
  Variable dh : bytes -> bytes -> bytes.
  Variable kdf : bytes -> bytes.
  Variables wenc wtag : bytes -> bytes -> bytes.
  Variable retrieve_key : (bytes * list (bytes * bytes)) -> bytes -> res (option bytes).
  Variable S0 : Stream.
  Notation LIMIT := Src3h.BINCODE_MAX_DESERIALIZE.

  Theorem reader_mirrors_writer_src wc eph w (s0 sa s1 : st S0) p0 cfg cfg' :
    g_writer_from_config pubk dh kdf wenc wtag [] wc eph = COk w ->
    sk S0 s0 (FromStart 0) = (sa, Ok p0) ->
    Src3h.ArchiveHeader_from S0 sa = (s1, Ok (to_persistent_full pubk dh kdf wenc wtag (absWC wc) eph)) ->
    Src3f.ArchiveReaderConfig_load_persistent retrieve_key cfg (to_persistent_full pubk dh kdf wenc wtag (absWC wc) eph) = (cfg', COk tt) ->
    cmap (Src3f.ar_src (list N)) (g_reader_desc retrieve_key S0 s0 cfg) = COk (wstack_layers (p_inner (Src3f.aw_dest _ w))).
  Proof.
    intros Hw Hs Hh Hl.
    rewrite (reader_stack_desc_src retrieve_key S0 s0 sa s1 p0 _ cfg cfg' Hs Hh Hl).
    assert (Hst := writer_from_config_src pubk dh kdf wenc wtag wc eph). rewrite Hw in Hst. cbn [cmap to_res] in Hst.
    symmetry in Hst. apply (writer_stack_layers LIMIT pubk dh kdf wenc wtag) in Hst. destruct Hst as (-> & _).
    reflexivity.
  Qed.
End Mirror.

Print Assumptions reader_from_config_src.
Print Assumptions failsafe_from_config_src.
Print Assumptions failsafe_repair_src.
Print Assumptions reader_key_check_first_src.
Print Assumptions failsafe_key_check_first_src.
Print Assumptions reader_mirrors_writer_src.
