(* PathDirProofs.v — the prologue of `mlar extract` (PathDir.v): what it may do to ANY file system with
   symbolic links, and what it hands to create_file.
     create_dir_spec          mkdir adds exactly one directory entry at a physical place that held nothing
     prologue_rel             the prologue only ever ADDS a directory (PathProofs.mk_rel): no file, no link
                              is created, changed or removed — in particular PathLinks.evolves for every `out`
     prologue_physical        the `output_dir` handed on is physical (no link on its way): a real directory
                              or — when `-o` names a regular file — a regular file in a real directory
     prologue_created_real    after a successful create_dir the canonical output directory is a real directory
     prologue_existing_dir / prologue_creates / prologue_existing_file / prologue_refused   the cases
     behind_prologue_evolves  a confined command stays confined behind the prologue
   and Examples (by computation, on Path.fs_sandbox) for: `-o` naming a regular file, a symbolic link to a
   directory, a dangling link, a missing parent, a parent that is a file. *)
From MLA Require Import Base Path PathDir PathProofs PathLinks.
Import Coq.Strings.String.StringSyntax Coq.Strings.Ascii.AsciiSyntax.

(* the parent resolves to the directory q and q/c is a directory: the whole path resolves to q/c *)
Lemma resolve_snoc_dir f c : forall k cur a q,
  resolve k f cur a = Some q -> is_dir f q = true ->
  lookup f (q ++ [c]) = Some Dir ->
  resolve k f cur (a ++ [Down c]) = Some (q ++ [c]).
Proof.
  induction k as [|k IH]; intros cur a q; cbn [resolve];
    destruct (walk f cur a) as [x| |c' r'] eqn:W; try discriminate.
  - intros H Hd Hl. inversion H; subst x.
    rewrite (walk_app_done f [Down c] a cur q W Hd). cbn [walk]. now rewrite Hl.
  - intros H Hd Hl. inversion H; subst x.
    rewrite (walk_app_done f [Down c] a cur q W Hd). cbn [walk]. now rewrite Hl.
  - intros H Hd Hl. rewrite (walk_app_link f [Down c] a cur c' r' W). now apply IH.
Qed.

Lemma create_dir_spec f p f1 : create_dir f p = Some f1 ->
  exists par c q, p = par ++ [c] /\ canonicalize f par = Some q /\ real_dir f q /\
                  lookup f (q ++ [c]) = None /\ f1 = set f (q ++ [c]) Dir.
Proof.
  unfold create_dir. destruct (split_last p) as [[par c]|] eqn:Es; [|discriminate].
  apply split_last_some in Es.
  destruct (canonicalize f par) as [q|] eqn:Ec; [|discriminate].
  destruct (is_dir f q) eqn:Ed; [|discriminate].
  destruct (lookup f (q ++ [c])) eqn:El; [discriminate|].
  intros [= <-]. exists par, c, q. repeat split; try assumption.
  exact (canonical_dir_is_real f par q Ec Ed).
Qed.

Lemma create_dir_rel f p f1 : create_dir f p = Some f1 -> mk_rel f f1.
Proof. intros H. destruct (create_dir_spec f p f1 H) as (par & c & q & _ & _ & _ & Hl & ->). now apply mk_rel_set. Qed.

Lemma prologue_rel f o : mk_rel f (fst (extract_prologue f o)).
Proof.
  unfold extract_prologue, sys_create_dir. destruct (sys_ok o && exists_ f o); [apply mk_rel_refl|].
  destruct (sys_ok o); [|apply mk_rel_refl].
  destruct (create_dir f o) as [f1|] eqn:E; [|apply mk_rel_refl]. exact (create_dir_rel f o f1 E).
Qed.

Corollary prologue_evolves out f o : evolves out f (fst (extract_prologue f o)).
Proof. apply mk_rel_evolves. apply prologue_rel. Qed.

Lemma prologue_physical f o f1 q : extract_prologue f o = (f1, Some q) -> physical f1 q.
Proof.
  unfold extract_prologue. destruct (sys_ok o && exists_ f o).
  - intros [= <- H]. exact (canonicalize_physical f o q H).
  - destruct (sys_create_dir f o) as [f2|]; [|discriminate]. intros [= <- H]. exact (canonicalize_physical f2 o q H).
Qed.

(* the directory just made is a real directory, and its own canonical path *)
Lemma create_dir_canonical f p f1 : create_dir f p = Some f1 ->
  exists q, canonicalize f1 p = Some q /\ real_dir f1 q.
Proof.
  intros H. destruct (create_dir_spec f p f1 H) as (par & c & q & -> & Hc & Hr & Hl & ->).
  assert (Hne : q ++ [c] <> []) by (destruct q; discriminate).
  assert (Hrel : mk_rel f (set f (q ++ [c]) Dir)) by now apply mk_rel_set.
  assert (Hr1 : real_dir (set f (q ++ [c]) Dir) (q ++ [c])).
  { apply real_dir_snoc; [exact (mk_rel_dirs_from _ _ _ _ Hrel Hr)|]. now apply lookup_set_eq. }
  exists (q ++ [c]). split; [|exact Hr1].
  (* resolve par to q on the grown file system, then one step into the new directory *)
  unfold canonicalize in *. rewrite down_app.
  assert (Hg : grows f (set f (q ++ [c]) Dir)).
  { pose proof (mk_rel_evolves [] _ _ Hrel) as He. exact (evolves_grows _ _ _ He). }
  pose proof (resolve_grows f _ Hg MAXSYMLINKS [] (down par) q Hc) as Hc1.
  cbn [down map]. apply (resolve_snoc_dir _ c _ _ _ q Hc1).
  - apply real_dir_is_dir. exact (mk_rel_dirs_from _ _ _ _ Hrel Hr).
  - exact (real_dir_lookup _ _ Hr1).
Qed.

Lemma prologue_created_real f o f1 q :
  (sys_ok o && exists_ f o = false)%bool -> extract_prologue f o = (f1, Some q) -> real_dir f1 q /\ f1 <> f.
Proof.
  unfold extract_prologue, sys_create_dir. intros ->. destruct (sys_ok o); [|discriminate].
  destruct (create_dir f o) as [f2|] eqn:E; [|discriminate]. intros [= <- H].
  destruct (create_dir_canonical f o f2 E) as (q' & Hq & Hr). rewrite Hq in H. injection H as <-. split; [exact Hr|].
  destruct (create_dir_spec f o f2 E) as (par & c & q0 & _ & _ & _ & Hl & ->). intros Heq.
  assert (Hne : q0 ++ [c] <> []) by (destruct q0; discriminate).
  pose proof (lookup_set_eq f (q0 ++ [c]) Dir Hne) as Hx. rewrite Heq in Hx. congruence.
Qed.

(* ---------- the cases ---------- *)
(* the output directory exists as a real directory: nothing happens *)
Lemma prologue_existing_dir f o : sys_ok o = true -> real_dir f o -> extract_prologue f o = (f, Some o).
Proof.
  intros Hs Hr. unfold extract_prologue, exists_. rewrite Hs, (canonicalize_real f o Hr). reflexivity.
Qed.

(* `-o` resolves (through any links) to q: a directory elsewhere (a symbolic link to a directory) or a
   regular file — no create_dir, the extraction goes to q *)
Lemma prologue_resolves f o q : sys_ok o = true -> canonicalize f o = Some q -> extract_prologue f o = (f, Some q).
Proof. intros Hs Hc. unfold extract_prologue, exists_. rewrite Hs, Hc. reflexivity. Qed.

(* nothing resolves at `-o` and mkdir refuses (missing parent, parent not a directory, a dangling link at the
   last component, a name the OS refuses): the command ends there, nothing is touched *)
Lemma prologue_refused f o : canonicalize f o = None -> sys_create_dir f o = None -> extract_prologue f o = (f, None).
Proof. intros Hc Hm. unfold extract_prologue, exists_. rewrite Hc, andb_false_r, Hm. reflexivity. Qed.

(* missing, with a real parent: one directory is made and it is the output directory *)
Lemma prologue_creates f par c :
  sys_ok (par ++ [c]) = true -> real_dir f par -> lookup f (par ++ [c]) = None ->
  extract_prologue f (par ++ [c]) = (set f (par ++ [c]) Dir, Some (par ++ [c])).
Proof.
  intros Hs Hr Hl.
  assert (Hce : canonicalize f (par ++ [c]) = None).
  { unfold canonicalize. apply resolve_fail.
    rewrite (walk_app_dirs f [] par [c] Hr). cbn [app walk down map]. now rewrite Hl. }
  assert (Hcd : create_dir f (par ++ [c]) = Some (set f (par ++ [c]) Dir)).
  { unfold create_dir. rewrite split_last_snoc, (canonicalize_real f par Hr), (real_dir_is_dir f par Hr), Hl. reflexivity. }
  unfold extract_prologue, exists_, sys_create_dir. rewrite Hs, Hce, Hcd. cbn [andb].
  destruct (create_dir_canonical f _ _ Hcd) as (q & Hq & Hrq). rewrite Hq. f_equal. f_equal.
  assert (Hne : par ++ [c] <> []) by (destruct par; discriminate).
  assert (Hr1 : real_dir (set f (par ++ [c]) Dir) (par ++ [c])).
  { apply real_dir_snoc; [exact (mk_rel_dirs_from _ _ _ _ (mk_rel_set f _ Hl) Hr)|]. now apply lookup_set_eq. }
  rewrite (canonicalize_real _ _ Hr1) in Hq. now injection Hq.
Qed.

(* ---------- a confined command behind the prologue ---------- *)
Theorem behind_prologue_evolves (cmd : path -> fs -> fs * bool) o f :
  (forall q g, evolves q g (fst (cmd q g))) ->
  forall out, (snd (extract_prologue f o) = Some out \/ snd (extract_prologue f o) = None) ->
  evolves out f (fst (behind_prologue cmd o f)).
Proof.
  intros Hcmd out Hout. unfold behind_prologue. pose proof (prologue_evolves out f o) as Hp.
  destruct (extract_prologue f o) as [f1 [q|]]; cbn [fst snd] in *.
  - destruct Hout as [[= ->]|]; [|discriminate]. exact (evolves_trans _ _ _ _ Hp (Hcmd out f1)).
  - exact Hp.
Qed.


(* ---------- the cases, by computation on the sandbox of c16-symlink (Path.fs_sandbox) ---------- *)
(*   out/ (real directory)   out/link -> ../sibling (directory)   out/flink -> ../outside.txt (file)
     out/dlink -> ../nowhere.txt (dangling)   outside.txt (file)   nothing at /new, /missing *)
Example prologue_cases :
  (* an existing real directory: untouched, it is the output directory *)
  extract_prologue fs_sandbox [s2b "out"] = (fs_sandbox, Some [s2b "out"]) /\
  (* a symbolic link to a directory: no mkdir; the extraction goes where the link points *)
  extract_prologue fs_sandbox [s2b "out"; s2b "link"] = (fs_sandbox, Some [s2b "sibling"]) /\
  (* a regular file (directly, or through a link): accepted by the prologue, handed on as "directory" *)
  extract_prologue fs_sandbox [s2b "outside.txt"] = (fs_sandbox, Some [s2b "outside.txt"]) /\
  extract_prologue fs_sandbox [s2b "out"; s2b "flink"] = (fs_sandbox, Some [s2b "outside.txt"]) /\
  (* a dangling link: exists() is false, mkdir answers EEXIST: error, nothing touched *)
  extract_prologue fs_sandbox [s2b "out"; s2b "dlink"] = (fs_sandbox, None) /\
  (* missing, parent missing: mkdir answers ENOENT (create_dir, not create_dir_all) *)
  extract_prologue fs_sandbox [s2b "missing"; s2b "new"] = (fs_sandbox, None) /\
  (* missing, the parent is a regular file: ENOTDIR *)
  extract_prologue fs_sandbox [s2b "outside.txt"; s2b "new"] = (fs_sandbox, None) /\
  (* missing with a real parent, also through a link in the parent: ONE directory, at the physical place *)
  extract_prologue fs_sandbox [s2b "new"] = (set fs_sandbox [s2b "new"] Dir, Some [s2b "new"]) /\
  extract_prologue fs_sandbox [s2b "out"; s2b "link"; s2b "new"] =
    (set fs_sandbox [s2b "sibling"; s2b "new"] Dir, Some [s2b "sibling"; s2b "new"]).
Proof. vm_compute. repeat split. Qed.

(* `-o` names a regular file: every member fails at create_file (create_dir_all / File::create below a regular
   file) or is skipped; the file is not touched; an archive without members "succeeds" *)
Example file_as_output_dir :
  behind_prologue (fun q g => extract_all q [(s2b "a", s2b "DATA")] g) [s2b "outside.txt"] fs_sandbox = (fs_sandbox, false) /\
  behind_prologue (fun q g => extract_all q [(s2b "d/a", s2b "DATA")] g) [s2b "outside.txt"] fs_sandbox = (fs_sandbox, false) /\
  behind_prologue (fun q g => extract_linear q [s2b "a"] [(s2b "a", s2b "DATA")] g) [s2b "outside.txt"] fs_sandbox = (fs_sandbox, false) /\
  behind_prologue (fun q g => extract_all q [] g) [s2b "outside.txt"] fs_sandbox = (fs_sandbox, true).
Proof. vm_compute. repeat split. Qed.

Print Assumptions behind_prologue_evolves.
Print Assumptions prologue_creates.
