(* TotalFooter.v — C08, part 2: the footer.  The pure parser consumes what it produces: the
   size of everything it allocates (names, offset vectors, map entries) is bounded by the
   length of the bytes it was given — the model analogue of the bincode limit = footer
   length — and its nat recursion counts are bounded by that length.  read_footer / ropen
   over any tame stream never crash and never run out of fuel, for ANY 4-byte length field. *)
From MLA Require Import Limit.
From MLA Require Import Base Stream Blocks Reader Total.
From Coq Require Import ZifyBool ZifyNat ZifyN.
Open Scope N_scope.

(* bytes allocated for a deserialised footer: per entry the String (name bytes), the
   Vec<u64> (8 per offset) and 32 bytes of fixed fields; 8 for the map itself *)
Definition entry_alloc (e : bytes * finfo) : N := 32 + len (fst e) + 8 * len (fi_offsets (snd e)).
Definition footer_alloc (m : footer) : N := fold_right (fun e a => entry_alloc e + a) 8 m.

Lemma take_u64_len b v r : take_u64 b = Some (v, r) -> len b = len r + 8.
Proof.
  unfold take_u64. destruct (N.ltb_spec (len b) 8) as [|H]; [discriminate|].
  intros E; injection E as _ <-. rewrite len_dropN. lia.
Qed.

Lemma take_u64s_len n : forall b vs r, take_u64s n b = Some (vs, r) ->
  length vs = n /\ len b = len r + 8 * N.of_nat n.
Proof.
  induction n as [|n IH]; intros b vs r; cbn [take_u64s].
  - intros E; injection E as <- <-. cbn [length]. split; [reflexivity|lia].
  - destruct (take_u64 b) as [[v r1]|] eqn:E1; [|discriminate].
    destruct (take_u64s n r1) as [[vs' r']|] eqn:E2; [|discriminate].
    intros E; injection E as <- <-.
    apply take_u64_len in E1. destruct (IH _ _ _ E2) as [Hl Hb].
    cbn [length]. split; [lia|lia].
Qed.

Lemma parse_entry_len b e r : parse_entry b = Some (e, r) -> len b = len r + entry_alloc e.
Proof.
  unfold parse_entry.
  destruct (take_u64 b) as [[nl r1]|] eqn:E1; [|discriminate].
  destruct (N.ltb_spec (len r1) nl) as [|Hnl]; [discriminate|].
  destruct (negb (utf8_valid (takeN nl r1))); [discriminate|].
  destruct (take_u64 (dropN nl r1)) as [[no r2]|] eqn:E2; [|discriminate].
  destruct (N.ltb_spec (len r2) (8 * no)) as [|Hno]; [discriminate|].
  destruct (take_u64s (N.to_nat no) r2) as [[offs r3]|] eqn:E3; [|discriminate].
  destruct (take_u64 r3) as [[size r4]|] eqn:E4; [|discriminate].
  destruct (take_u64 r4) as [[eof r5]|] eqn:E5; [|discriminate].
  intros E; injection E as <- <-.
  apply take_u64_len in E1, E2, E4, E5. apply take_u64s_len in E3. destruct E3 as [Hlo E3].
  rewrite len_dropN in E2.
  unfold entry_alloc. cbn [fst snd fi_offsets]. rewrite len_takeN.
  assert (Ho : len offs = no) by (unfold len; rewrite Hlo; lia). rewrite Ho. lia.
Qed.

Lemma parse_entries_len n : forall b m, parse_entries n b = Some m ->
  length m = n /\ footer_alloc m <= len b + 8.
Proof.
  induction n as [|n IH]; intros b m; cbn [parse_entries].
  - intros E; injection E as <-. cbn. split; [reflexivity|lia].
  - destruct (parse_entry b) as [[e r]|] eqn:E1; [|discriminate].
    destruct (parse_entries n r) as [es|] eqn:E2; [|discriminate].
    intros E; injection E as <-.
    apply parse_entry_len in E1. destruct (IH _ _ E2) as [Hl Hb].
    cbn [length footer_alloc fold_right]. fold (footer_alloc es). split; [lia|lia].
Qed.

(* C08 item 2 (pure part): everything a parsed footer allocates is bounded by the input *)
Theorem parse_footer_map_alloc b m : parse_footer_map b = Some m -> footer_alloc m <= len b.
Proof.
  unfold parse_footer_map.
  destruct (take_u64 b) as [[n r]|] eqn:E1; [|discriminate].
  destruct (len r <? 32 * n); [discriminate|].
  intros E. apply parse_entries_len in E. apply take_u64_len in E1. lia.
Qed.

Lemma footer_alloc_entries m : 8 + 32 * len m <= footer_alloc m.
Proof.
  induction m as [|e m IH]; cbn [footer_alloc fold_right].
  - unfold len; cbn [length]; lia.
  - fold (footer_alloc m). rewrite len_cons. unfold entry_alloc. lia.
Qed.
Lemma footer_alloc_entry m e : In e m -> entry_alloc e + 8 <= footer_alloc m.
Proof.
  induction m as [|x m IH]; [intros []|]. cbn [footer_alloc fold_right]. fold (footer_alloc m).
  intros [->|H]; [|specialize (IH H); lia].
  pose proof (footer_alloc_entries m). lia.
Qed.

Corollary parse_footer_map_count b m : parse_footer_map b = Some m -> 32 * len m <= len b.
Proof. intros H. apply parse_footer_map_alloc in H. pose proof (footer_alloc_entries m). lia. Qed.

Corollary parse_footer_map_offsets b m name fi :
  parse_footer_map b = Some m -> In (name, fi) m -> 8 * len (fi_offsets fi) <= len b /\ len name <= len b.
Proof.
  intros H Hin. apply parse_footer_map_alloc in H. apply footer_alloc_entry in Hin.
  unfold entry_alloc in Hin. cbn [fst snd] in Hin. lia.
Qed.

(* the nat recursion counts are bounded by the input length: a count that the input cannot
   back is refused before any recursion *)
Lemma parse_footer_map_guard b n r : take_u64 b = Some (n, r) -> len b < 32 * n -> parse_footer_map b = None.
Proof.
  intros E H. unfold parse_footer_map. rewrite E. apply take_u64_len in E.
  destruct (N.ltb_spec (len r) (32 * n)); [reflexivity|lia].
Qed.

Lemma flookup_in m name fi : flookup m name = Some fi -> exists k, In (k, fi) m.
Proof.
  induction m as [|[k v] m IH]; cbn [flookup]; [discriminate|].
  destruct (flookup m name) as [v'|] eqn:E.
  - intros H; injection H as <-. destruct (IH eq_refl) as [k' Hk]. exists k'. right; exact Hk.
  - destruct (bytes_eqb k name); [|discriminate]. intros H; injection H as <-. exists k. left; reflexivity.
Qed.

Section FooterReader.
  Context {LIM : Limit}.
  Variable S : Stream.
  Variable I : st S -> Prop.
  Variable pos : st S -> N.
  Variable M : N.
  Hypothesis HT : Tame S I pos M.

  (* ArchiveFooter::deserialize_from: any 4-byte length field, any footer bytes *)
  Theorem read_footer_tame s : I s ->
    match read_footer S s with
    | (s', Ok m) => I s' /\ footer_alloc m <= M
    | (s', Err e) => I s' /\ e <> EFuel
    | (_, Crash _) => False
    end.
  Proof.
    intros Hs. unfold read_footer.
    pose proof (tame_sk _ _ _ _ HT s (FromEnd (-4)) Hs) as H1.
    destruct (sk S s (FromEnd (-4))) as [s1 [p|e|c]]; try exact H1.
    destruct H1 as [Hs1 _].
    pose proof (rexact_tame _ _ _ _ HT s1 4 Hs1) as H2.
    destruct (rexact S s1 4) as [s2 [l4|e|c]]; try exact H2.
    destruct H2 as (Hs2 & _).
    destruct (p <? le_val l4); [split; [exact Hs2|discriminate]|].
    pose proof (tame_sk _ _ _ _ HT s2 (FromStart (p - le_val l4)) Hs2) as H3.
    destruct (sk S s2 (FromStart (p - le_val l4))) as [s3 [q|e|c]]; try exact H3.
    destruct H3 as [Hs3 _].
    pose proof (read_full_tame _ _ _ _ HT s3 (le_val l4) Hs3) as H4.
    destruct (read_full S (Datatypes.S (N.to_nat (le_val l4))) s3 (le_val l4)) as [s4 [b|e|c]]; try exact H4.
    - destruct H4 as (Hs4 & Hl & Hp & HM).
      destruct (parse_footer_map b) as [m|] eqn:Em; [|split; [exact Hs4|discriminate]].
      destruct (N.min (le_val l4) lim <? len (ser_footer_map m)); [split; [exact Hs4|discriminate]|].
      split; [exact Hs4|]. apply parse_footer_map_alloc in Em.
      destruct (N.eq_dec (len b) 0) as [E|E]; [pose proof (footer_alloc_entries m); lia|].
      specialize (HM E). lia.
    - destruct H4 as [Hs4 _]. split; [exact Hs4|discriminate].
  Qed.

  (* the part of ArchiveReader::from_config above the layers *)
  Theorem ropen_tame s : I s ->
    match ropen S s with
    | Ok r => I (r_src r) /\ footer_alloc (r_meta r) <= M
    | Err e => e <> EFuel
    | Crash _ => False
    end.
  Proof.
    intros Hs. unfold ropen. pose proof (read_footer_tame s Hs) as H1.
    destruct (read_footer S s) as [s1 [m|e|c]]; [|exact (proj2 H1)|exact H1].
    destruct H1 as [Hs1 Hm].
    pose proof (tame_sk _ _ _ _ HT s1 (FromStart 0) Hs1) as H2.
    destruct (sk S s1 (FromStart 0)) as [s2 [q|e|c]]; [|exact (proj2 H2)|exact H2].
    cbn [r_src r_meta]. split; [exact (proj1 H2)|exact Hm].
  Qed.
End FooterReader.
