(* RunC20.v — Tie B entry point for C20: the status and handle-variable rows of a program of
   C calls, evaluated on the model (CApi.capi_step) and diffed with the real libmla.so. *)
From MLA Require Import Limit.
From MLAGen Require Src.
(* executable entry points: the production value of BINCODE_MAX_DESERIALIZE (the same in both flavours), file-local *)
#[local] Instance RUN_LIMIT : Limit := MLAGen.Src.BINCODE_MAX_DESERIALIZE_prod.
From MLA Require Import Base Stream Inst Blocks Writer CApi.
From MLAGen Require Src.
Open Scope N_scope.

Section RunC20.
  Variable k : consts.
  Definition cstep := capi_step (cFNMAX k) Src.BT_FileStart Src.BT_FileContent Src.BT_EndOfArchiveData
                                Src.BT_EndOfFile (fun _ => []) (fun f => f) true.

  Definition ref (n i : N) : href := if i <? n then RSlot i else RNull.
  Definition pubkey (x : N) : keyarg :=
    match x with 0 => KNull | 1 => KValid 1 | 4 => KValid 3 | _ => KInvalid end.
  Definition privkey (x : N) : keyarg :=
    match x with 0 => KNull | 1 | 4 => KValid 1 | _ => KInvalid end.
  Definition status_of_code (c : N) : status :=
    match find (fun s => status_code s =? c) all_status with Some s => s | None => IOError end.
  (* callback flags observed during the call (environment input): bit0 write callback failed,
     bit1 flush callback failed, bit5 the failure was dropped by brotli's stream finish *)
  Definition io_of_flags (fl : N) : ioev :=
    if N.testbit fl 5 then IoFail PhFinish
    else if N.testbit fl 1 then IoFail PhFlushCb
    else if N.testbit fl 0 then IoFail PhRaw else IoOk.

  Definition decode (names : list bytes) (c : list N) : option ccall :=
    match c with
    | [fl; 0; o; _; _; _] => Some (CConfigNew (ref 2 o))
    | [fl; 1; c; x; _; _] => Some (CAddPub (ref 2 c) (pubkey x))
    | [fl; 2; c; l; _; _] => Some (CSetLevel (ref 2 c) l)
    | [fl; 3; o; _; _; _] => Some (CRConfigNew (ref 2 o))
    | [fl; 4; c; x; _; _] => Some (CAddPriv (ref 2 c) (privkey x))
    | [fl; 5; c; a; cbs; _] => Some (CArchiveNew (ref 2 c) (negb (N.testbit cbs 0)) (negb (N.testbit cbs 1)) (ref 2 a) (io_of_flags fl))
    | [fl; 6; a; n; f; _] => Some (CFileNew (ref 2 a) (nth_error names (N.to_nat n)) (ref 4 f) (io_of_flags fl))
    | [fl; 7; a; f; isnull; l] => Some (CAppend (ref 2 a) (ref 4 f) (if isnull =? 0 then Some [] else None) l (io_of_flags fl))
    | [fl; 8; a; _; _; _] => Some (CFlush (ref 2 a) (io_of_flags fl))
    | [fl; 9; a; f; _; _] => Some (CFileClose (ref 2 a) (ref 4 f) (io_of_flags fl))
    | [fl; 10; a; _; _; _] => Some (CArchiveClose (ref 2 a) (io_of_flags fl))
    | [fl; 11; c; cbs; oc; _] => Some (CExtract (ref 2 c) (negb (N.testbit cbs 0)) (negb (N.testbit cbs 1)) (negb (N.testbit cbs 2)) (status_of_code oc))
    | [fl; 12; cbs; oc; _; _] => Some (CInfo (negb (N.testbit cbs 0)) (negb (N.testbit cbs 1)) (status_of_code oc))
    | _ => None
    end.

  Definition bit {A} (o : option A) : N := match o with Some _ => 1 | None => 0 end.
  Definition row (s : cstate) (r : cres) : list N :=
    (match r with Ret st => status_code st | CCrash site => 4000000000 + site end)
      :: [bit (c_cfg s 0); bit (c_cfg s 1); bit (c_rcfg s 0); bit (c_rcfg s 1); bit (c_ar s 0); bit (c_ar s 1);
          bit (c_fh s 0); bit (c_fh s 1); bit (c_fh s 2); bit (c_fh s 3)].

  Fixpoint rows (names : list bytes) (s : cstate) (cs : list (list N)) : list (list N) :=
    match cs with
    | [] => []
    | c :: r =>
      match decode names c with
      | None => [[57005]]
      | Some cc => let '(s1, x) := cstep s cc in row s1 x :: rows names s1 r
      end
    end.
  Definition capi_rows (names : list bytes) (calls : list (list N)) : list (list N) := rows names c_init calls.
End RunC20.
