(* RepairProofs5.v — the clean-up of the files still open, finalize, and convert_to_archive
   as a whole on any prefix of a well-formed block stream: it returns Ok, and its result is
   described by the records of `cutb`. *)
From MLA Require Import Limit.
From MLA Require Import Base Stream Blocks Writer Repair RepairSpec RepairPure
  RepairProofs1 RepairProofs2 RepairProofs3 RepairProofs4.
From Coq Require Import ZifyBool ZifyNat ZifyN.
Open Scope N_scope.

Definition close (g : frec) : frec := mkF (f_id g) (f_name g) (f_data g) true.
Definition unfinished_of (fs : list frec) : list bytes :=
  map f_name (filter (fun f => negb (f_ended f)) fs).
(* same file, same bytes; the output side is always ended *)
Definition same (f g : frec) : Prop := f_name f = f_name g /\ f_data f = f_data g /\ f_ended g = true.

Lemma close_ended g : f_ended g = true -> close g = g.
Proof. destruct g as [i n d e]; cbn. intros ->. reflexivity. Qed.
Lemma upd_end_self g : upd_end (f_id g) g = close g.
Proof. unfold upd_end. now rewrite N.eqb_refl. Qed.
Lemma find_id_notin fs id : ~ In id (map f_id fs) -> find_id fs id = None.
Proof.
  induction fs as [|x r IH]; cbn [map In]; [reflexivity|]. intros Hn. rewrite find_id_cons.
  destruct (N.eqb_spec (f_id x) id); [intuition | apply IH; intuition].
Qed.
Lemma nodup_mid l1 (y : frec) l2 : ids_nodup (l1 ++ y :: l2) ->
  find_id (l1 ++ y :: l2) (f_id y) = Some y /\
  ~ In (f_id y) (map f_id l1) /\ ~ In (f_id y) (map f_id l2).
Proof.
  unfold ids_nodup. rewrite map_app. cbn [map]. intros Hn.
  apply NoDup_remove_2 in Hn. rewrite in_app_iff in Hn.
  assert (N1 : ~ In (f_id y) (map f_id l1)) by tauto.
  assert (N2 : ~ In (f_id y) (map f_id l2)) by tauto.
  split; [|tauto]. rewrite find_id_app, (find_id_notin _ _ N1), find_id_cons, N.eqb_refl. reflexivity.
Qed.
Lemma sim_close_same fs ofs : Forall2 sim fs ofs -> Forall2 same fs (map close ofs).
Proof.
  induction 1 as [|x y r r' (Sn & Sd & Se) Hr IH]; cbn [map]; constructor; [|exact IH].
  repeat split; assumption.
Qed.

Section Whole.
  Context {LIM : Limit}.
  Variable S : Stream.
  Variable w : bytes.
  Variable R : st S -> N -> Prop.
  Hypothesis HR : Refines S w R.
  Variable FNMAX CACHE : N.
  Hypothesis HFN : FNMAX < 2 ^ 64.
  Hypothesis HCACHE : 0 < CACHE.
  Variables T_START T_CONTENT T_EOA T_EOF : N.
  Hypothesis Htags : T_START <> T_CONTENT /\ T_START <> T_EOA /\ T_START <> T_EOF /\
                     T_CONTENT <> T_EOA /\ T_CONTENT <> T_EOF /\ T_EOA <> T_EOF.
  Variable H : bytes -> bytes.
  Hypothesis H_len : forall x, len (H x) = 32.

  Notation Wrep := (Wrep FNMAX T_START T_CONTENT T_EOA T_EOF H).
  Notation body := (body T_START T_CONTENT T_EOA T_EOF).
  Notation history := (history FNMAX T_START T_CONTENT T_EOA T_EOF H).
  Notation cleanup := (cleanup T_START T_CONTENT T_EOA T_EOF H S).
  Notation repair := (repair FNMAX CACHE T_START T_CONTENT T_EOA T_EOF H S).
  Notation wf_from := (wf_from FNMAX H).
  Notation wf_blocks := (wf_blocks FNMAX H).

  Lemma cleanup_spec st : forall fsR ofsR, Forall2 sim fsR ofsR ->
    forall ofsL out obl unf,
    Wrep out obl -> files_of obl = ofsL ++ ofsR ->
    (forall f, In f fsR -> assoc (rp_names S st) (f_id f) = Some (f_name f) /\
                           mem (rp_done S st) (f_id f) = f_ended f) ->
    exists out' obl',
      cleanup (pairs fsR ofsR) st out unf = Ok (out', unf ++ unfinished_of fsR) /\
      Wrep out' obl' /\ files_of obl' = ofsL ++ map close ofsR.
  Proof.
    induction 1 as [|x y r r' (Sn & Sd & Se) Hr IH]; intros ofsL out obl unf W Hfo Hst.
    - exists out, obl. cbn. rewrite app_nil_r. auto.
    - destruct (Hst x (or_introl eq_refl)) as [Hnm Hdn].
      unfold pairs. cbn [map combine Repair.cleanup]. fold (pairs r r'). rewrite Hdn.
      unfold unfinished_of. cbn [filter]. fold (unfinished_of r).
      destruct (f_ended x) eqn:Ex; cbn [negb].
      + (* already ended *)
        destruct (IH (ofsL ++ [y]) out obl unf W) as (out' & obl' & Hc & W' & Hfo').
        { rewrite <- app_assoc. exact Hfo. }
        { intros f Hf. apply Hst. now right. }
        exists out', obl'. split; [exact Hc|]. split; [exact W'|].
        rewrite Hfo', <- app_assoc. cbn [map app]. rewrite close_ended by congruence. reflexivity.
      + rewrite Hnm.
        pose proof (Wrep_nodup _ _ _ _ _ _ _ _ W) as Hnd. rewrite Hfo in Hnd.
        destruct (nodup_mid _ _ _ Hnd) as (Hfy & N1 & N2).
        rewrite <- Hfo in Hfy.
        destruct (Wrep_end FNMAX T_START T_CONTENT T_EOA T_EOF H out obl (f_id y) y W Hfy) as (out1 & Hw & W1 & _);
          [congruence|].
        rewrite Hw.
        destruct (IH (ofsL ++ [close y]) out1 _ (unf ++ [f_name x]) W1) as (out' & obl' & Hc & W' & Hfo').
        { rewrite files_of_snoc, Hfo. cbn [fstep].
          rewrite (map_upd_split (upd_end (f_id y)) (f_id y)); [| intros z; apply upd_end_other | exact N1 | exact N2].
          rewrite upd_end_self, <- app_assoc. reflexivity. }
        { intros f Hf. apply Hst. now right. }
        exists out', obl'. split; [|split; [exact W'|]].
        * rewrite Hc. cbn [map]. rewrite <- app_assoc. reflexivity.
        * rewrite Hfo', <- app_assoc. reflexivity.
  Qed.

  (* convert_to_archive on a source delivering the prefix w of a well-formed block stream *)
  Theorem repair_spec bl trailer fuel s0 :
    wf_blocks bl -> (In BEnd bl \/ trailer = []) -> prefix w (body bl ++ trailer) ->
    R s0 0 -> (N.to_nat (len w) < fuel)%nat ->
    (* the footer of the repaired archive fits the bincode limit and its u32 length field:
       finalize did not fail with SerializationError (see repair_ser_error) *)
    repair fuel s0 w_init <> Err EDeser ->
    exists out obl ft,
      repair fuel s0 w_init =
        Ok (if snd (cutb bl (len w)) then FEndOfData else FEofNextBlock,
            unfinished_of (frun [] (fst (cutb bl (len w)))), out) /\
      w_final out = true /\
      w_out out = body (obl ++ [BEnd]) ++ ser_footer ft /\
      w_files out = name_list (files_of obl) /\
      wf_from [] (obl ++ [BEnd]) /\
      history out /\
      Forall2 same (frun [] (fst (cutb bl (len w)))) (files_of obl).
  Proof.
    intros [Hwf Hnum] Ht Hp HR0 Hfuel Hne.
    assert (HA : At S w R s0 w) by (exists 0; split; [exact HR0 | apply dropN_0]).
    destruct (block_loop_spec S w R HR FNMAX CACHE HFN HCACHE T_START T_CONTENT T_EOA T_EOF Htags H H_len
                trailer bl fuel s0 w_init [] [] [] [] [] [] w
                (Inv_init FNMAX T_START T_CONTENT T_EOA T_EOF H) HA Hp Ht Hwf Hnum Hfuel)
      as (s' & out' & ids' & names' & done' & hash' & obl' & Hloop & I).
    set (fs' := frun [] (fst (cutb bl (len w)))) in *.
    destruct I as [Iw Isim Iids Inames Idone Ihash Ind]. subst ids'.
    destruct (cleanup_spec (mkRP S s' out' (pairs fs' (files_of obl')) names' done' hash') fs' (files_of obl') Isim [] out' obl' [] Iw eq_refl)
      as (out1 & obl1 & Hc & W1 & Hfo1).
    { intros f Hf. cbn [rp_names rp_done]. rewrite Inames, Idone.
      assert (Hff : find_id fs' (f_id f) = Some f).
      { destruct (find_id fs' (f_id f)) as [f0|] eqn:E.
        - f_equal. symmetry. apply (find_id_unique fs' (f_id f) f0 f Ind E Hf eq_refl).
        - exfalso. apply find_id_none_notin in E. apply E. now apply in_map. }
      rewrite Hff. auto. }
    cbn [app] in Hc, Hfo1.
    assert (Hended : forall f, In f (files_of obl1) -> f_ended f = true).
    { rewrite Hfo1. intros f Hf. apply in_map_iff in Hf. destruct Hf as (g & <- & _). reflexivity. }
    assert (Hfit : len (ser_footer_map (w_footer out1)) <= lim /\ len (ser_footer_map (w_footer out1)) < 2 ^ 32).
    { destruct (N.le_gt_cases (len (ser_footer_map (w_footer out1))) lim) as [Hl|Hl];
        [destruct (N.lt_ge_cases (len (ser_footer_map (w_footer out1))) (2 ^ 32)) as [H32|H32]; [auto|]|].
      - exfalso. destruct (Wrep_finalize_unfit FNMAX T_START T_CONTENT T_EOA T_EOF H out1 obl1 W1 Hended (or_intror H32)) as (o' & Ho').
        apply Hne. unfold Repair.repair. rewrite Hloop. cbn [rp_ids rp_out]. rewrite Hc, Ho'. reflexivity.
      - exfalso. destruct (Wrep_finalize_unfit FNMAX T_START T_CONTENT T_EOA T_EOF H out1 obl1 W1 Hended (or_introl Hl)) as (o' & Ho').
        apply Hne. unfold Repair.repair. rewrite Hloop. cbn [rp_ids rp_out]. rewrite Hc, Ho'. reflexivity. }
    destruct (Wrep_finalize FNMAX T_START T_CONTENT T_EOA T_EOF H out1 obl1 W1 Hended (proj1 Hfit) (proj2 Hfit))
      as (out2 & Hfin & F1 & F2 & F3 & F4 & F5).
    exists out2, obl1, (w_footer out1).
    split; [|repeat split; try assumption].
    - unfold Repair.repair. rewrite Hloop. cbn [rp_ids rp_out]. rewrite Hc, Hfin. reflexivity.
    - rewrite Hfo1. apply sim_close_same. exact Isim.
  Qed.
End Whole.
