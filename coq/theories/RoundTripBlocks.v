(* RoundTripBlocks.v — C01, bottom layer: a serialised block is parsed back by
   ArchiveFileBlock::from over ANY stream that refines a cursor (short reads allowed), and the
   stream lands right behind the block header (behind the whole block for everything but
   FileContent, whose data is left to the caller).  Block lists, their offsets, the
   projection of a block list on one file id and the offsets of its maximal runs. *)
From MLA Require Import Base Stream Blocks.
From Coq Require Import ZifyBool ZifyNat ZifyN.
Open Scope N_scope.

Definition tags_distinct (a b c d : N) : Prop :=
  a <> b /\ a <> c /\ a <> d /\ b <> c /\ b <> d /\ c <> d.

Lemma len_le64 v : len (le64 v) = 8.
Proof. exact (len_le_bytes 8 v). Qed.
Lemma len_le32 v : len (le32 v) = 4.
Proof. exact (len_le_bytes 4 v). Qed.
Lemma le64_val v : v < 2 ^ 64 -> le_val (le64 v) = v.
Proof.
  intros Hv. apply (le_val_le_bytes 8).
  replace (256 ^ N.of_nat 8) with (2 ^ 64) by reflexivity. exact Hv.
Qed.
Lemma le32_val v : v < 2 ^ 32 -> le_val (le32 v) = v.
Proof.
  intros Hv. apply (le_val_le_bytes 4).
  replace (256 ^ N.of_nat 4) with (2 ^ 32) by reflexivity. exact Hv.
Qed.

Lemma sliceN_mid {A} (pre x post : list A) : sliceN (len pre) (len x) (pre ++ x ++ post) = x.
Proof. unfold sliceN. rewrite dropN_len_app. apply takeN_len_app. Qed.

(* ---------- reading the next field of a known byte string ---------- *)
Section Fields.
  Variable S : Stream.
  Variable b : bytes.
  Variable R : st S -> N -> Prop.
  Hypothesis HR : Refines S b R.

  Lemma rexact_mid s pre x post n :
    b = pre ++ x ++ post -> n = len x -> R s (len pre) ->
    exists s', rexact S s n = (s', Ok x) /\ R s' (len pre + n).
  Proof.
    intros Hb Hn HRs. unfold rexact.
    destruct (read_exact_spec S b R HR (Datatypes.S (N.to_nat n)) s (len pre) n HRs) as (s' & HR' & Heq); [lia|].
    exists s'. rewrite Heq.
    assert (Hl : len b = len pre + len x + len post) by (rewrite Hb, !len_app; lia).
    replace (len pre + N.min n (len b - len pre)) with (len pre + n) in HR' by lia.
    split; [|exact HR'].
    destruct (N.leb_spec (len pre + n) (len b)); [|lia].
    rewrite Hb, Hn, sliceN_mid. reflexivity.
  Qed.

  Lemma read_u64_mid s pre v post :
    b = pre ++ le64 v ++ post -> v < 2 ^ 64 -> R s (len pre) ->
    exists s', read_u64 S s = (s', Ok v) /\ R s' (len pre + 8).
  Proof.
    intros Hb Hv HRs. unfold read_u64.
    destruct (rexact_mid s pre (le64 v) post 8 Hb (eq_sym (len_le64 v)) HRs) as (s' & -> & HR').
    exists s'. rewrite (le64_val v Hv). auto.
  Qed.

  (* a plain read of up to n bytes inside a known field: delivers a non-empty prefix *)
  Lemma rd_mid s pre x post n :
    b = pre ++ x ++ post -> R s (len pre) -> 0 < n -> 0 < len x ->
    exists s' k, rd S s (N.min (len x) n) = (s', Ok (takeN k x)) /\ 0 < k /\ k <= n /\ k <= len x /\
                 R s' (len pre + k).
  Proof.
    intros Hb HRs Hn Hx.
    assert (Hl : len b = len pre + len x + len post) by (rewrite Hb, !len_app; lia).
    destruct (ref_rd _ _ _ HR s (len pre) (N.min (len x) n) HRs) as (s' & k & Hrd & Hk & Hkb & Hz & HR').
    exists s', k. rewrite Hrd.
    assert (0 < k).
    { destruct (N.eq_dec k 0) as [E|E]; [|lia]. destruct (Hz E); lia. }
    repeat split; try lia; [|exact HR'].
    do 2 f_equal. rewrite Hb. unfold sliceN. rewrite dropN_len_app.
    apply takeN_app_le. lia.
  Qed.
End Fields.

(* ---------- blocks ---------- *)
Section RTBlocks.
  Variable FNMAX : N.
  Variables T_START T_CONTENT T_EOA T_EOF : N.
  Hypothesis Htags : tags_distinct T_START T_CONTENT T_EOA T_EOF.

  Notation ser_block := (ser_block T_START T_CONTENT T_EOA T_EOF).

  Definition ser_blocks (bl : list block) : bytes := concat (map ser_block bl).

  Lemma ser_blocks_app l1 l2 : ser_blocks (l1 ++ l2) = ser_blocks l1 ++ ser_blocks l2.
  Proof. unfold ser_blocks. rewrite map_app. apply concat_app. Qed.
  Lemma ser_blocks_cons x l : ser_blocks (x :: l) = ser_block x ++ ser_blocks l.
  Proof. reflexivity. Qed.
  Lemma ser_blocks_nil : ser_blocks [] = [].
  Proof. reflexivity. Qed.

  (* what a block must satisfy to be parsed back (all of it guaranteed by the writer) *)
  Definition wfb (x : block) : Prop :=
    match x with
    | BStart id name => id < 2 ^ 64 /\ len name <= FNMAX /\ len name < 2 ^ 64 /\ utf8_valid name = true
    | BContent id d => id < 2 ^ 64 /\ 0 < len d /\ len d < 2 ^ 64
    | BEof id h => id < 2 ^ 64 /\ len h = 32
    | BEnd => True
    end.

  Definition pb_of (x : block) : pblock :=
    match x with
    | BStart id name => PStart id name
    | BContent id d => PContent id (len d)
    | BEof id h => PEof id h
    | BEnd => PEnd
    end.

  (* bytes consumed by ArchiveFileBlock::from *)
  Definition hdr_len (x : block) : N :=
    match x with
    | BStart _ name => 17 + len name
    | BContent _ _ => 17
    | BEof _ _ => 41
    | BEnd => 1
    end.
  Definition data_of (x : block) : bytes := match x with BContent _ d => d | _ => [] end.

  Lemma len_ser_block x : wfb x -> len (ser_block x) = hdr_len x + len (data_of x).
  Proof.
    destruct x as [id name|id d|id h|]; cbn [Blocks.ser_block hdr_len data_of wfb]; intros Hw;
      rewrite ?len_app, ?len_le64, ?len_cons, ?len_nil; lia.
  Qed.
  Lemma len_ser_block_pos x : 0 < len (ser_block x).
  Proof.
    destruct x; cbn [Blocks.ser_block]; rewrite ?len_app, ?len_cons, ?len_nil; lia.
  Qed.

  Section Parse.
    Variable S : Stream.
    Variable b : bytes.
    Variable R : st S -> N -> Prop.
    Hypothesis HR : Refines S b R.
    Notation parse_block := (parse_block FNMAX T_START T_CONTENT T_EOA T_EOF S).

    (* THE parse/serialise lemma *)
    Lemma parse_ser_block s pre x post :
      b = pre ++ ser_block x ++ post -> wfb x -> R s (len pre) ->
      exists s', parse_block s = (s', Ok (pb_of x)) /\ R s' (len pre + hdr_len x).
    Proof.
      destruct Htags as (H12 & H13 & H14 & H23 & H24 & H34).
      intros Hb Hw HRs. unfold Blocks.parse_block.
      destruct x as [id name|id d|id h|]; cbn [Blocks.ser_block wfb pb_of hdr_len] in *.
      - destruct Hw as (Hid & Hfn & Hln & Hutf).
        rewrite <- !app_assoc in Hb.
        destruct (rexact_mid S b R HR s pre [T_START] _ 1 Hb eq_refl HRs) as (s1 & -> & HR1).
        cbv beta iota. rewrite N.eqb_refl.
        assert (Hb1 : b = (pre ++ [T_START]) ++ le64 id ++ le64 (len name) ++ name ++ post)
          by (rewrite Hb, <- !app_assoc; reflexivity).
        assert (HR1' : R s1 (len (pre ++ [T_START]))) by (rewrite len_app; exact HR1).
        destruct (read_u64_mid S b R HR s1 _ id _ Hb1 Hid HR1') as (s2 & -> & HR2).
        assert (Hb2 : b = ((pre ++ [T_START]) ++ le64 id) ++ le64 (len name) ++ name ++ post)
          by (rewrite Hb, <- !app_assoc; reflexivity).
        assert (HR2' : R s2 (len ((pre ++ [T_START]) ++ le64 id)))
          by (rewrite (len_app _ (le64 id)), len_le64; exact HR2).
        destruct (read_u64_mid S b R HR s2 _ (len name) _ Hb2 Hln HR2') as (s3 & -> & HR3).
        destruct (N.ltb_spec FNMAX (len name)); [lia|].
        assert (Hb3 : b = (((pre ++ [T_START]) ++ le64 id) ++ le64 (len name)) ++ name ++ post)
          by (rewrite Hb, <- !app_assoc; reflexivity).
        assert (HR3' : R s3 (len (((pre ++ [T_START]) ++ le64 id) ++ le64 (len name))))
          by (rewrite (len_app _ (le64 (len name))), len_le64; exact HR3).
        destruct (rexact_mid S b R HR s3 _ name post (len name) Hb3 eq_refl HR3') as (s4 & -> & HR4).
        rewrite Hutf. exists s4. split; [reflexivity|].
        rewrite !len_app, !len_le64 in HR4. rewrite len_cons, len_nil in HR4.
        replace (len pre + (17 + len name)) with (len pre + (0 + 1) + 8 + 8 + len name) by lia.
        exact HR4.
      - destruct Hw as (Hid & Hpos & Hln).
        rewrite <- !app_assoc in Hb.
        destruct (rexact_mid S b R HR s pre [T_CONTENT] _ 1 Hb eq_refl HRs) as (s1 & -> & HR1).
        cbv beta iota.
        destruct (N.eqb_spec T_CONTENT T_START); [congruence|]. rewrite N.eqb_refl.
        assert (Hb1 : b = (pre ++ [T_CONTENT]) ++ le64 id ++ le64 (len d) ++ d ++ post)
          by (rewrite Hb, <- !app_assoc; reflexivity).
        assert (HR1' : R s1 (len (pre ++ [T_CONTENT]))) by (rewrite len_app; exact HR1).
        destruct (read_u64_mid S b R HR s1 _ id _ Hb1 Hid HR1') as (s2 & -> & HR2).
        assert (Hb2 : b = ((pre ++ [T_CONTENT]) ++ le64 id) ++ le64 (len d) ++ d ++ post)
          by (rewrite Hb, <- !app_assoc; reflexivity).
        assert (HR2' : R s2 (len ((pre ++ [T_CONTENT]) ++ le64 id)))
          by (rewrite (len_app _ (le64 id)), len_le64; exact HR2).
        destruct (read_u64_mid S b R HR s2 _ (len d) _ Hb2 Hln HR2') as (s3 & -> & HR3).
        exists s3. split; [reflexivity|].
        rewrite !len_app, !len_le64 in HR3. rewrite len_cons, len_nil in HR3.
        replace (len pre + 17) with (len pre + (0 + 1) + 8 + 8) by lia. exact HR3.
      - destruct Hw as (Hid & Hh).
        rewrite <- !app_assoc in Hb.
        destruct (rexact_mid S b R HR s pre [T_EOF] _ 1 Hb eq_refl HRs) as (s1 & -> & HR1).
        cbv beta iota.
        destruct (N.eqb_spec T_EOF T_START); [congruence|].
        destruct (N.eqb_spec T_EOF T_CONTENT); [congruence|]. rewrite N.eqb_refl.
        assert (Hb1 : b = (pre ++ [T_EOF]) ++ le64 id ++ h ++ post)
          by (rewrite Hb, <- !app_assoc; reflexivity).
        assert (HR1' : R s1 (len (pre ++ [T_EOF]))) by (rewrite len_app; exact HR1).
        destruct (read_u64_mid S b R HR s1 _ id _ Hb1 Hid HR1') as (s2 & -> & HR2).
        assert (Hb2 : b = ((pre ++ [T_EOF]) ++ le64 id) ++ h ++ post)
          by (rewrite Hb, <- !app_assoc; reflexivity).
        assert (HR2' : R s2 (len ((pre ++ [T_EOF]) ++ le64 id)))
          by (rewrite (len_app _ (le64 id)), len_le64; exact HR2).
        destruct (rexact_mid S b R HR s2 _ h post 32 Hb2 (eq_sym Hh) HR2') as (s3 & -> & HR3).
        exists s3. split; [reflexivity|].
        rewrite !len_app, !len_le64 in HR3. rewrite len_cons, len_nil in HR3.
        replace (len pre + 41) with (len pre + (0 + 1) + 8 + 32) by lia. exact HR3.
      - destruct (rexact_mid S b R HR s pre [T_EOA] _ 1 Hb eq_refl HRs) as (s1 & -> & HR1).
        cbv beta iota.
        destruct (N.eqb_spec T_EOA T_START); [congruence|].
        destruct (N.eqb_spec T_EOA T_CONTENT); [congruence|].
        destruct (N.eqb_spec T_EOA T_EOF); [congruence|]. rewrite N.eqb_refl.
        exists s1. split; [reflexivity | exact HR1].
    Qed.
  End Parse.

  (* ---------- projection on one id, runs ---------- *)

  Definition has_id (id : N) (x : block) : bool :=
    match block_id x with Some i => i =? id | None => false end.
  Definition proj (id : N) (bl : list block) : list block := filter (has_id id) bl.

  Lemma proj_app id l1 l2 : proj id (l1 ++ l2) = proj id l1 ++ proj id l2.
  Proof. apply filter_app. Qed.

  (* the first block of a given id, with only foreign blocks before it *)
  Lemma proj_split id bl x xs : proj id bl = x :: xs ->
    exists pre post, bl = pre ++ x :: post /\ proj id pre = [] /\ proj id post = xs /\ has_id id x = true.
  Proof.
    induction bl as [|y bl IH]; cbn [proj filter]; [discriminate|].
    destruct (has_id id y) eqn:E.
    - intros [= -> <-]. exists [], bl. cbn [app proj filter]. auto.
    - intros Hp. destruct (IH Hp) as (pre & post & -> & Hpre & Hpost & Hx).
      exists (y :: pre), post. cbn [app proj filter]. rewrite E. auto.
  Qed.

  Lemma proj_in id bl x : In x bl -> has_id id x = true -> In x (proj id bl).
  Proof. intros Hi Hh. apply filter_In. auto. Qed.

  (* id of the last block written (prev when none) *)
  Definition last_id (prev : option N) (bl : list block) : option N :=
    fold_left (fun _ x => block_id x) bl prev.
  Lemma last_id_app prev l1 l2 : last_id prev (l1 ++ l2) = last_id (last_id prev l1) l2.
  Proof. apply fold_left_app. Qed.

  Definition is_id (o : option N) (id : N) : bool :=
    match o with Some i => i =? id | None => false end.

  (* start offsets of the maximal runs of blocks of [id]; [prev] is the id of the block
     before [pos] *)
  Fixpoint run_offs (id : N) (prev : option N) (pos : N) (bl : list block) : list N :=
    match bl with
    | [] => []
    | x :: r =>
      (if has_id id x && negb (is_id prev id) then [pos] else [])
        ++ run_offs id (block_id x) (pos + len (ser_block x)) r
    end.

  Lemma run_offs_app id prev pos l1 l2 :
    run_offs id prev pos (l1 ++ l2) =
    run_offs id prev pos l1 ++ run_offs id (last_id prev l1) (pos + len (ser_blocks l1)) l2.
  Proof.
    revert prev pos; induction l1 as [|x l1 IH]; intros prev pos; cbn [app run_offs].
    - rewrite ser_blocks_nil, len_nil, N.add_0_r. reflexivity.
    - rewrite IH, <- app_assoc. do 3 f_equal.
      rewrite ser_blocks_cons, len_app. lia.
  Qed.

  Lemma run_offs_foreign id prev pos l : proj id l = [] -> run_offs id prev pos l = [].
  Proof.
    revert prev pos; induction l as [|x l IH]; intros prev pos; cbn [proj filter run_offs]; [reflexivity|].
    destruct (has_id id x) eqn:E; [discriminate|]. intros Hp. cbn [andb app]. apply IH. exact Hp.
  Qed.

  Lemma last_id_foreign id prev l : proj id l = [] -> is_id prev id = false ->
    is_id (last_id prev l) id = false.
  Proof.
    revert prev; induction l as [|x l IH]; intros prev; cbn [proj filter]; [auto|].
    destruct (has_id id x) eqn:E; [discriminate|]. intros Hp Hprev.
    change (last_id prev (x :: l)) with (last_id (block_id x) l).
    apply IH; [exact Hp|]. unfold has_id in E. unfold is_id. exact E.
  Qed.

  Lemma has_id_is_id id x : has_id id x = is_id (block_id x) id.
  Proof. reflexivity. Qed.
End RTBlocks.
