(* Config.v — NEW model file (work package cfgT): the CONSTRUCTION decisions of mla/src/lib.rs and
   mla/src/config.rs as data, mirroring the Rust.  Archive.v / ArchiveSrc.v decide the layer stack by a case
   analysis inlined in `lower_write` / `open_stack(_src)` / `failsafe_repair`; here the same decisions produce a
   VALUE (the stack) that can be compared with what the translated `from_config` functions (gen/Src3f.v) build:

     writer   [wstack]: RawLayerWriter (holding the header bytes) / EncryptionLayerWriter key nonce /
              CompressionLayerWriter level, nested bottom-up; [pstack] = PositionLayerWriter on top.
              [writer_stack] = ArchiveWriter::from_config (check, header, encrypt if enabled, compress if
              enabled, position, reset); [run_wstack] runs a stack on the pieces written at the top, finalize
              included.  ConfigProofs.archive_write_is_stack: Archive.archive_write IS writer_stack + wrun +
              run_wstack, for every configuration, cut and call list.
     reader   [dynR]: a boxed `dyn LayerReader` = a Stream, its state, its `initialize` (each layer's initialize
              calls the inner layer's first).  dyn_box_raw / dyn_enc_new / dyn_comp_new are the three `new`.
     failsafe [dynF] = a Stream and its state; [failsafe_open] = ArchiveFailSafeReader::from_config, the part of
              ArchiveSrc.failsafe_repair before `repair` (ConfigProofs.failsafe_repair_is_open).
     builders [disable_layer_flags]: bitflags' `&= !layer` TRUNCATES the complement to the named flags, so
              unknown bits of the receiver are dropped too (Builders.disable_layer keeps them: see
              SrcTie3Cfg.disable_layer_differs).
   Definitions only. *)
From MLA Require Import Limit.
From MLA Require Import Base Stream EncLayer CompLayer RawLayer CompWriterProofs LayerStack Blocks Writer Reader
  Repair EncWriter Format Ecies Archive HeaderStream Run ArchiveSrc.
Open Scope N_scope.

(* ---------- the writer's configuration, field by field (config.rs, encrypt.rs, compress.rs) ---------- *)
Record wconf := mkWConf {
  wl_layers : N;                (* layers_enabled, the u8 of the bitflags, unknown bits included *)
  wl_level : N;                 (* compress.compression_level *)
  wl_recipients : list bytes;   (* encrypt.ecc_keys *)
  wl_key : bytes;               (* encrypt.key *)
  wl_nonce : bytes;             (* encrypt.nonce *)
}.

(* Layers::all() = ENCRYPT | COMPRESS; `!x` = all & ~x *)
Definition L_ALL : N := N.lor L_ENCRYPT L_COMPRESS.
Definition disable_layer_flags (enabled layer : N) : N := N.land enabled (N.ldiff L_ALL layer).

(* ---------- the writer's stack as data ---------- *)
Inductive wstack :=
| WRaw (written : bytes)                          (* RawLayerWriter over a destination that holds `written` *)
| WEnc (inner : wstack) (key nonce : bytes)       (* EncryptionLayerWriter::new(inner, &config.encrypt) *)
| WComp (inner : wstack) (level : N).             (* CompressionLayerWriter::new(inner, &config.compress) *)
Record pstack := mkP { p_inner : wstack; p_pos : N }.   (* PositionLayerWriter { inner, pos } *)

Fixpoint wstack_layers (w : wstack) : list N :=     (* top first *)
  match w with
  | WRaw _ => []
  | WEnc i _ _ => L_ENCRYPT :: wstack_layers i
  | WComp i _ => L_COMPRESS :: wstack_layers i
  end.
Fixpoint wstack_base (w : wstack) : bytes :=
  match w with WRaw b => b | WEnc i _ _ => wstack_base i | WComp i _ => wstack_base i end.

Section Config.
  Variables CHUNK TAG CIPHERBUF BLOCK LIMIT FNMAX CACHE : N.
  Local Hint Extern 0 Limit => exact LIMIT : typeclass_instances.
  Variables TS TC TA TE : N.
  Variable H : bytes -> bytes.
  Variable order : footer -> footer.
  Variable pubk : bytes -> bytes.
  Variable dh : bytes -> bytes -> bytes.
  Variable kdf : bytes -> bytes.
  Variables wenc wdec wtag : bytes -> bytes -> bytes.
  Variable ksf : bytes -> bytes -> N -> N -> N.
  Variable tagf : bytes -> bytes -> N -> bytes -> bytes.
  Variable dec : bytes -> bytes.
  Variable compf : N -> bytes -> bytes.      (* the compressor of one block at a given level *)

  (* Archive.wconfig keeps two booleans and the compressor; eph: the bytes drawn by to_persistent *)
  Definition wconfig_of (c : wconf) (eph : bytes) : wconfig :=
    mkWC (has_bit (wl_layers c) L_COMPRESS) (has_bit (wl_layers c) L_ENCRYPT) (compf (wl_level c))
         (wl_key c) (wl_nonce c) eph (wl_recipients c).

  (* ArchiveWriterConfig::to_persistent: the layers byte AS IT IS (unknown bits included) *)
  Definition to_persistent_full (c : wconf) (eph : bytes) : header :=
    mkH (wl_layers c)
        (if has_bit (wl_layers c) L_ENCRYPT then
           let m := store_key pubk dh kdf wenc wtag (wl_recipients c) (wl_key c) eph in
           Some (mkEH (m_public m) (m_keys m) (wl_nonce c))
         else None).

  (* ArchiveWriter::from_config (lib.rs:817): check; header into the raw layer; encrypt, compress; position *)
  Definition writer_stack (c : wconf) (eph : bytes) : res pstack :=
    if has_bit (wl_layers c) L_ENCRYPT && match wl_recipients c with [] => true | _ => false end then Err EKey else
    do hdr <- dump_header LIMIT (to_persistent_full c eph);
    let s0 := WRaw hdr in
    let s1 := if has_bit (wl_layers c) L_ENCRYPT then WEnc s0 (wl_key c) (wl_nonce c) else s0 in
    let s2 := if has_bit (wl_layers c) L_COMPRESS then WComp s1 (wl_level c) else s1 in
    Ok (mkP s2 0).

  (* the pieces written at the top of a stack, then finalize (recursive: each layer finalizes, then its inner
     layer); cuts: how the output of each compression layer reaches the layer below *)
  Fixpoint run_wstack (w : wstack) (pieces : list bytes) (cuts : list (list N)) : res bytes :=
    match w with
    | WRaw written => Ok (written ++ concat pieces)
    | WEnc inner k n =>
      do s <- ew_archive CHUNK CIPHERBUF (ksf k n) (tagf k n) (Datatypes.S (N.to_nat (len (concat pieces)))) pieces;
      run_wstack inner [ew_out s] cuts
    | WComp inner lvl =>
      match cw_write_pieces BLOCK (compf lvl) cw_init pieces with
      | (w1, Ok _) =>
        match cw_finalize (compf lvl) w1 with
        | (w2, Ok _) => run_wstack inner (cut_pieces (hd [] cuts) (cw_out w2)) (tl cuts)
        | (_, Err e) => Err e | (_, Crash c) => Crash c
        end
      | (_, Err e) => Err e | (_, Crash c) => Crash c
      end
    end.

  (* ---------- the reader's boxed layers ---------- *)
  Record dynR := mkDynR { dr_S : Stream; dr_st : st dr_S; dr_init : st dr_S -> st dr_S * res unit }.
  Definition dyn_set (l : dynR) (s : st (dr_S l)) : dynR := mkDynR (dr_S l) s (dr_init l).

  Section Src.
    Variable S0 : Stream.

    Definition dyn_box_raw (r : RawLayer.rstate S0) : dynR := mkDynR (RawReader S0) r (raw_initialize S0).

    (* EncryptionLayerReader::initialize over ANY inner layer: inner.initialize()?; self.rewind()? *)
    Definition enc_init_over (I : Stream) (init : st I -> st I * res unit) (ks : N -> N -> N) (tagc : N -> bytes -> bytes)
        (e : estate I) : estate I * res unit :=
      match init (e_in e) with
      | (i', Ok _) =>
        match eseek_start CHUNK TAG ks tagc I (mkE i' (e_cache e) (e_cpos e) (e_chunk e)) 0 with
        | (e', Ok _) => (e', Ok tt)
        | (e', Err x) => (e', Err x)
        | (e', Crash x) => (e', Crash x)
        end
      | (i', Err x) => (mkE i' (e_cache e) (e_cpos e) (e_chunk e), Err x)
      | (i', Crash x) => (mkE i' (e_cache e) (e_cpos e) (e_chunk e), Crash x)
      end.

    (* EncryptionLayerReader::new(inner, &config.encrypt): PrivateKeyNeeded without parameters *)
    Definition dyn_enc_new (l : dynR) (params : option (bytes * bytes)) : res dynR :=
      match params with
      | Some (k, n) =>
        Ok (mkDynR (EncReader CHUNK TAG (ksf k n) (tagf k n) (dr_S l)) (mkE (dr_st l) [] 0 0)
                   (enc_init_over (dr_S l) (dr_init l) (ksf k n) (tagf k n)))
      | None => Err EKey
      end.

    (* CompressionLayerReader::new(inner): underlayer_pos = inner.stream_position()? *)
    Definition dyn_comp_new (l : dynR) : res dynR :=
      match comp_new (dr_S l) (dr_st l) with
      | (c, Ok _) => Ok (mkDynR (CompReader BLOCK dec (dr_S l)) c (comp_initialize LIMIT (dr_S l) (dr_init l)))
      | (_, Err e) => Err e
      | (_, Crash x) => Crash x
      end.

    Definition dyn_initialize (l : dynR) : dynR * res unit :=
      let '(s, r) := dr_init l (dr_st l) in (dyn_set l s, r).
    Definition dyn_footer (l : dynR) : dynR * res footer :=
      let '(s, r) := read_footer (dr_S l) (dr_st l) in (dyn_set l s, r).
    Definition dyn_rewind (l : dynR) : dynR * res N :=
      let '(s, r) := sk (dr_S l) (dr_st l) (FromStart 0) in (dyn_set l s, r).

    (* ---------- the fail-safe reader's boxed layers: no seek, no initialize ---------- *)
    Definition dynF : Type := { S : Stream & st S }.
    Definition dynf_raw (s : st S0) : dynF := existT _ S0 s.
    (* EncryptionLayerFailSafeReader::new: PrivateKeyNeeded without parameters; loads chunk 0 *)
    Definition dynf_enc_new (l : dynF) (params : option (bytes * bytes)) (unauth : bool) : res dynF :=
      match params with
      | Some (k, n) =>
        match fs_open CHUNK TAG (ksf k n) (projT1 l) (projT2 l) with
        | (es, Ok _) => Ok (existT _ (FsEnc CHUNK TAG (ksf k n) (tagf k n) unauth (projT1 l)) es)
        | (_, Err e) => Err e
        | (_, Crash c) => Crash c
        end
      | None => Err EKey
      end.
    Variable FsCompOver : Stream -> Stream.
    Variable fscomp_open : forall I : Stream, st I -> res (st (FsCompOver I)).
    Definition dynf_comp_new (l : dynF) : res dynF :=
      do cs <- fscomp_open (projT1 l) (projT2 l); Ok (existT _ (FsCompOver (projT1 l)) cs).

    (* ArchiveFailSafeReader::from_config (lib.rs:1361): NO rewind; header; load_persistent; raw, encrypt,
       compress *)
    Definition failsafe_open (s0 : st S0) (privs : list bytes) (unauth : bool) : res dynF :=
      match read_header_s S0 LIMIT s0 with
      | (s1, Ok h) =>
        do cf <- load_config dh kdf wdec wtag h privs;
        let '(e, c, k, n) := cf in
        do l1 <- (if e then dynf_enc_new (dynf_raw s1) (Some (k, n)) unauth else Ok (dynf_raw s1));
        if c then dynf_comp_new l1 else Ok l1
      | (_, Err e) => Err e
      | (_, Crash c) => Crash c
      end.
  End Src.
End Config.
