(* EncAuthTrunc.v — what the fail-safe reader delivers on a TRUNCATION of an unaltered stream
   (C04, used by C02): exactly, in the unauthenticated mode, a prefix of
       plain ++ junk plain
   where junk = the first min(TAG, CHUNK - r) bytes of the LAST chunk's tag, decrypted as if they
   were data (r = length of the last chunk's plaintext): load_in_cache_unauthenticated reads up
   to CHUNK bytes and only then skips a tag, so on a short last chunk the tag is inside what it
   reads.  On the untruncated stream the output IS plain ++ junk (these bytes land after the
   end-of-archive marker and the footer of a real archive).  The authenticated output is a
   prefix of that too (C04_auth_prefix_of_unauth). *)
From MLA Require Import Base Stream EncLayer EncAuth EncAuthFs EncAuthC.
From Coq Require Import ZifyBool ZifyNat ZifyN.
Open Scope N_scope.

Lemma prefix_app_cases {A} (w a b : list A) : prefix w (a ++ b) ->
  prefix w a \/ exists w', w = a ++ w' /\ prefix w' b.
Proof.
  intros H. pose proof (prefix_is_takeN _ _ H) as E. pose proof (prefix_len _ _ H) as L.
  destruct (N.le_gt_cases (len w) (len a)) as [Hl|Hl].
  - left. rewrite E, takeN_app_le by exact Hl. apply prefix_takeN.
  - right. exists (takeN (len w - len a) b). split; [|apply prefix_takeN].
    rewrite E at 1. apply takeN_app_ge. lia.
Qed.

Lemma prefix_takeN_both {A} n (a b : list A) : prefix a b -> prefix (takeN n a) (takeN n b).
Proof.
  intros [r ->]. destruct (N.le_gt_cases n (len a)) as [H|H].
  - rewrite takeN_app_le by exact H. apply prefix_refl.
  - rewrite takeN_app_ge by lia. rewrite (takeN_all n a) by lia. apply prefix_app.
Qed.

Section Trunc.
  Variables CHUNK TAG : N.
  Hypothesis HCHUNK : 0 < CHUNK.
  Variable ks : N -> N -> N.
  Variable tagc : N -> bytes -> bytes.
  Hypothesis Htagc : forall i c, len (tagc i c) = TAG.

  Notation CTS := (CTS CHUNK TAG).
  Notation xor_from := (xor_from ks).
  Notation chunk_enc := (chunk_enc ks tagc).
  Notation enc_from := (enc_from CHUNK ks tagc).
  Notation dec_unauth := (dec_unauth CHUNK ks).
  Notation out_from := (out_from CHUNK TAG).

  Lemma xor_app i off a b : xor_from i off (a ++ b) = xor_from i off a ++ xor_from i (off + len a) b.
  Proof.
    revert off; induction a as [|x a IH]; intros off; cbn [EncLayer.xor_from app].
    - change (len (@nil N)) with 0. rewrite N.add_0_r. reflexivity.
    - rewrite IH, len_cons. do 3 f_equal. lia.
  Qed.
  Lemma prefix_xor i off a b : prefix a b -> prefix (xor_from i off a) (xor_from i off b).
  Proof. intros [r ->]. rewrite xor_app. apply prefix_app. Qed.

  (* decrypted tag bytes after a last chunk whose plaintext is `last`, under counter k *)
  Definition junk_of (k : N) (last : bytes) : bytes :=
    xor_from k (len last) (takeN (CHUNK - len last) (tagc k (xor_from k 0 last))).

  (* the first CHUNK bytes of one chunk on the wire, decrypted *)
  Lemma dec_chunk_enc i pc : len pc <= CHUNK ->
    xor_from i 0 (takeN CHUNK (chunk_enc i pc)) = pc ++ junk_of i pc.
  Proof.
    intros Hl. unfold EncLayer.chunk_enc, junk_of.
    rewrite takeN_app_ge by (rewrite len_xor_from'; exact Hl).
    rewrite len_xor_from', xor_app, xor_from_invol, len_xor_from', N.add_0_l. reflexivity.
  Qed.

  Lemma out_from_nil dec f i : (forall j, dec j [] = Some [] \/ dec j [] = None) -> out_from dec f i [] = [].
  Proof.
    intros H. destruct f as [|f]; [reflexivity|]. cbn [EncAuthFs.out_from].
    destruct (H i) as [-> | ->]; [|reflexivity].
    change (len (@nil N)) with 0. destruct (N.ltb_spec 0 CHUNK); [reflexivity | lia].
  Qed.
  Lemma dec_unauth_nil j : dec_unauth j [] = Some [] \/ dec_unauth j [] = None.
  Proof. left. unfold EncAuthFs.dec_unauth. rewrite takeN_nil. reflexivity. Qed.

  (* w ⊑ one chunk on the wire (possibly the last: followed by nothing) *)
  Lemma unauth_one_chunk f i pc w tl : len pc <= CHUNK -> prefix w (chunk_enc i pc) ->
    prefix (out_from dec_unauth f i w) ((pc ++ junk_of i pc) ++ tl).
  Proof.
    intros Hl Hw. destruct f as [|f]; [apply prefix_nil|]. cbn [EncAuthFs.out_from].
    unfold EncAuthFs.dec_unauth.
    assert (Hp : prefix (xor_from i 0 (takeN CHUNK w)) (pc ++ junk_of i pc)).
    { rewrite <- dec_chunk_enc by exact Hl. apply prefix_xor, prefix_takeN_both, Hw. }
    assert (Hd : dropN CTS w = []).
    { apply dropN_all. apply prefix_len in Hw. unfold EncLayer.chunk_enc in Hw.
      rewrite len_app, len_xor_from', Htagc in Hw. unfold EncLayer.CTS. lia. }
    rewrite Hd, (out_from_nil _ _ _ dec_unauth_nil), app_nil_r.
    eapply prefix_trans; [|apply prefix_app].
    destruct (_ <? _); exact Hp.
  Qed.

  Lemma unauth_trunc_from n : forall i pl w f,
    N.of_nat n * CHUNK <= len pl -> len pl <= (N.of_nat n + 1) * CHUNK ->
    prefix w (enc_from n i pl) -> (length w < f)%nat ->
    prefix (out_from dec_unauth f i w)
           (pl ++ junk_of (i + N.of_nat n) (dropN (N.of_nat n * CHUNK) pl)).
  Proof.
    induction n as [|n IH]; intros i pl w f Hlo Hhi Hw Hf.
    - cbn [EncLayer.enc_from] in Hw. change (N.of_nat 0) with 0 in *.
      rewrite N.mul_0_l, dropN_0, N.add_0_r.
      rewrite <- (app_nil_r (pl ++ junk_of i pl)). apply unauth_one_chunk; [lia | exact Hw].
    - cbn [EncLayer.enc_from] in Hw.
      assert (Hn : N.of_nat (Datatypes.S n) = N.of_nat n + 1) by lia. rewrite Hn in *.
      set (pc := takeN CHUNK pl) in *.
      assert (Hpc : len pc = CHUNK) by (unfold pc; rewrite len_takeN; lia).
      assert (Hsplit : pl = pc ++ dropN CHUNK pl) by (symmetry; apply takeN_dropN).
      assert (Hjunk : junk_of i pc = []).
      { unfold junk_of. rewrite Hpc, N.sub_diag, takeN_0. reflexivity. }
      destruct (prefix_app_cases _ _ _ Hw) as [H1|(w' & -> & H2)].
      + (* the cut is inside this chunk *)
        pose proof (unauth_one_chunk f i pc w
                      (dropN CHUNK pl ++ junk_of (i + (N.of_nat n + 1)) (dropN ((N.of_nat n + 1) * CHUNK) pl))
                      ltac:(lia) H1) as H.
        rewrite Hjunk, app_nil_r, app_assoc, <- Hsplit in H. exact H.
      + (* this chunk is complete: decrypt it and go on *)
        destruct f as [|f]; [cbn in Hf; lia|]. cbn [EncAuthFs.out_from]. unfold EncAuthFs.dec_unauth.
        assert (Hce : len (chunk_enc i pc) = CTS).
        { unfold EncLayer.chunk_enc. rewrite len_app, len_xor_from', Htagc, Hpc. reflexivity. }
        rewrite takeN_app_le by (rewrite Hce; unfold EncLayer.CTS; lia).
        pose proof (dec_chunk_enc i pc ltac:(lia)) as Hdec. rewrite Hjunk, app_nil_r in Hdec. rewrite Hdec.
        rewrite Hpc. destruct (N.ltb_spec CHUNK CHUNK) as [?|_]; [lia|].
        replace CTS with (len (chunk_enc i pc)) at 1 by exact Hce. rewrite dropN_len_app.
        rewrite Hsplit at 1. rewrite <- app_assoc. apply prefix_app_same.
        specialize (IH (i + 1) (dropN CHUNK pl) w' f).
        rewrite len_dropN, dropN_dropN in IH.
        replace (i + 1 + N.of_nat n) with (i + (N.of_nat n + 1)) in IH by lia.
        replace (CHUNK + N.of_nat n * CHUNK) with ((N.of_nat n + 1) * CHUNK) in IH by lia.
        apply IH; [lia | lia | exact H2 |].
        rewrite app_length in Hf. unfold len, EncLayer.CTS in Hce. lia.
  Qed.

  (* ---------- statements about whole streams ---------- *)

  Variable plain : bytes.
  Let nf := nfull CHUNK (len plain).
  Definition junk : bytes := junk_of nf (dropN (nf * CHUNK) plain).

  Lemma nfull_bounds : N.of_nat (N.to_nat nf) * CHUNK <= len plain /\ len plain <= (N.of_nat (N.to_nat nf) + 1) * CHUNK.
  Proof.
    rewrite N2Nat.id. unfold nf, nfull. destruct (N.eq_dec (len plain) 0) as [->|H0].
    - rewrite N.div_small by lia. lia.
    - pose proof (N.div_mod (len plain - 1) CHUNK ltac:(lia)) as H.
      pose proof (N.mod_lt (len plain - 1) CHUNK ltac:(lia)). lia.
  Qed.

  Lemma unauth_out_unfold w :
    unauth_out CHUNK TAG ks w = out_from dec_unauth (Datatypes.S (Datatypes.S (length w))) 0 w.
  Proof. reflexivity. Qed.

  (* truncation only: the unauthenticated output is a prefix of plain ++ junk ... *)
  Theorem fs_unauth_truncated w : prefix w (enc_format CHUNK ks tagc plain) ->
    prefix (unauth_out CHUNK TAG ks w) (plain ++ junk).
  Proof.
    intros Hw. rewrite unauth_out_unfold. unfold enc_format in Hw. fold nf in Hw.
    destruct nfull_bounds as [H1 H2].
    pose proof (unauth_trunc_from (N.to_nat nf) 0 plain w (Datatypes.S (Datatypes.S (length w))) H1 H2 Hw ltac:(lia)) as H.
    rewrite N2Nat.id, N.add_0_l in H. exact H.
  Qed.

  (* ... and so is the authenticated output *)
  Theorem fs_auth_truncated w : prefix w (enc_format CHUNK ks tagc plain) ->
    prefix (auth_out CHUNK TAG ks tagc w) (plain ++ junk).
  Proof.
    intros Hw. eapply prefix_trans; [apply (fs_auth_prefix_of_unauth CHUNK TAG HCHUNK)|].
    apply fs_unauth_truncated, Hw.
  Qed.
End Trunc.
