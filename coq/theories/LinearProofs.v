(* LinearProofs.v — C12: what holds of helpers::linear_extract over ANY top-layer stream
   (arbitrary bytes, any layer stack):
     - it succeeds only if the block walk from position 0 reached an EndOfArchiveData tag at a
       block boundary (every block before it parsed, every content skipped by its length);
     - it delivers data only to names that were chosen.
   (That the bytes delivered to a chosen name are the file's bytes is the round-trip theorem of
   C01 instantiated on the linear walk; see props/C12.v.) *)
From MLA Require Import Limit.
From MLA Require Import Base Stream Blocks Reader.
Open Scope N_scope.

Section Lin.
  Context {LIM : Limit}.
  Variable FNMAX : N.
  Variables T_START T_CONTENT T_EOA T_EOF : N.
  Variable S : Stream.
  Notation parse_block := (parse_block FNMAX T_START T_CONTENT T_EOA T_EOF S).
  Notation lx_loop := (lx_loop FNMAX T_START T_CONTENT T_EOA T_EOF S).
  Notation linear_extract := (linear_extract FNMAX T_START T_CONTENT T_EOA T_EOF S).

  (* from state s, successive block parses (content skipped by its announced length) reach the
     end-of-archive-data marker *)
  Inductive ReachesEnd : st S -> Prop :=
  | RE_end s s1 : parse_block s = (s1, Ok (PEnd)) -> ReachesEnd s
  | RE_start s s1 id name : parse_block s = (s1, Ok (PStart id name)) -> ReachesEnd s1 -> ReachesEnd s
  | RE_eof s s1 id h : parse_block s = (s1, Ok (PEof id h)) -> ReachesEnd s1 -> ReachesEnd s
  | RE_content s s1 id l fuel s2 d :
      parse_block s = (s1, Ok (PContent id l)) -> copy_take S fuel s1 l [] = (s2, Ok d) ->
      ReachesEnd s2 -> ReachesEnd s.

  Theorem lx_ok_reaches_end fuel : forall s export ids acc r,
    lx_loop fuel s export ids acc = Ok r -> ReachesEnd s.
  Proof.
    induction fuel as [|fuel IH]; intros s export ids acc r H; cbn [Reader.lx_loop] in H; [discriminate|].
    destruct (parse_block s) as [s1 [pb|e|c]] eqn:Ep; try discriminate.
    destruct pb as [id name|id l|id h|].
    - eapply RE_start; [exact Ep|]. eapply IH; exact H.
    - destruct (copy_take S (Datatypes.S fuel) s1 l []) as [s2 [d|e|c]] eqn:Ec; try discriminate.
      eapply RE_content; [exact Ep | exact Ec |].
      destruct (id_lookup ids id); eapply IH; exact H.
    - eapply RE_eof; [exact Ep|]. eapply IH; exact H.
    - eapply RE_end; exact Ep.
  Qed.

  Theorem linear_ok_needs_marker fuel rd export r :
    linear_extract fuel rd export = Ok r ->
    exists s1 v, sk S (r_src rd) (FromStart 0) = (s1, Ok v) /\ ReachesEnd s1.
  Proof.
    unfold Reader.linear_extract. destruct (sk S (r_src rd) (FromStart 0)) as [s1 [v|e|c]]; try discriminate.
    intros H. exists s1, v. split; [reflexivity|]. eapply lx_ok_reaches_end; exact H.
  Qed.

  (* nothing is delivered for a name that was not chosen *)
  Definition chosen_only (export : list bytes) (ps : list (bytes * bytes)) : Prop :=
    forall p, In p ps -> name_in export (fst p) = true.
  Definition ids_chosen (export : list bytes) (ids : list (N * bytes)) : Prop :=
    forall id n, id_lookup ids id = Some n -> name_in export n = true.

  Lemma id_lookup_removed ids id : id_lookup (id_remove ids id) id = None.
  Proof.
    induction ids as [|[k v] ids IH]; cbn [id_remove id_lookup]; [reflexivity|].
    destruct (N.eqb_spec k id) as [->|Hk]; [exact IH|].
    cbn [id_lookup]. rewrite (proj2 (N.eqb_neq k id) Hk). exact IH.
  Qed.

  Lemma id_lookup_remove ids id id' n : id_lookup (id_remove ids id) id' = Some n -> id_lookup ids id' = Some n.
  Proof.
    induction ids as [|[k v] ids IH]; cbn [id_remove id_lookup]; [discriminate|].
    destruct (N.eqb_spec k id) as [->|Hk].
    - intros H. destruct (N.eqb_spec id id') as [<-|]; [|exact (IH H)].
      rewrite id_lookup_removed in H. discriminate.
    - cbn [id_lookup]. destruct (k =? id'); [auto | exact IH].
  Qed.

  Lemma ids_chosen_remove export ids id : ids_chosen export ids -> ids_chosen export (id_remove ids id).
  Proof. intros H id' n Hl. eapply H. eapply id_lookup_remove; exact Hl. Qed.

  Lemma ids_chosen_insert export ids id name :
    name_in export name = true -> ids_chosen export ids -> ids_chosen export (id_insert ids id name).
  Proof.
    intros Hn H id' n. unfold id_insert. cbn [id_lookup].
    destruct (id =? id'); [intros E; injection E as <-; exact Hn|].
    intros Hl. eapply H. eapply id_lookup_remove; exact Hl.
  Qed.

  Theorem lx_only_chosen fuel : forall s export ids acc r,
    lx_loop fuel s export ids acc = Ok r ->
    ids_chosen export ids -> chosen_only export acc -> chosen_only export r.
  Proof.
    induction fuel as [|fuel IH]; intros s export ids acc r H Hids Hacc; cbn [Reader.lx_loop] in H; [discriminate|].
    destruct (parse_block s) as [s1 [pb|e|c]] eqn:Ep; try discriminate.
    destruct pb as [id name|id l|id h|].
    - destruct (name_in export name) eqn:En.
      + eapply IH; [exact H | apply ids_chosen_insert; assumption | exact Hacc].
      + eapply IH; [exact H | exact Hids | exact Hacc].
    - destruct (copy_take S (Datatypes.S fuel) s1 l []) as [s2 [d|e|c]] eqn:Ec; try discriminate.
      destruct (id_lookup ids id) as [name|] eqn:El.
      + eapply IH; [exact H | exact Hids |].
        intros p Hp. apply in_app_or in Hp. destruct Hp as [Hp|[<-|[]]]; [apply Hacc; exact Hp|].
        cbn [fst]. eapply Hids; exact El.
      + eapply IH; [exact H | exact Hids | exact Hacc].
    - eapply IH; [exact H | apply ids_chosen_remove; exact Hids | exact Hacc].
    - injection H as <-. exact Hacc.
  Qed.

  Theorem linear_only_chosen fuel rd export r :
    linear_extract fuel rd export = Ok r -> chosen_only export r.
  Proof.
    unfold Reader.linear_extract. destruct (sk S (r_src rd) (FromStart 0)) as [s1 [v|e|c]]; try discriminate.
    intros H. eapply lx_only_chosen; [exact H | intros id n Hl; discriminate | intros p []].
  Qed.
End Lin.
