(* Gcm.v — executable model of mla/src/crypto/aesgcm.rs (struct AesGcm256:
   new, encrypt, into_tag, decrypt_unauthenticated, decrypt), abstract in the
   block cipher E (AES-256 under the key given to [new]) and in the GF(2^128)
   product gmul (what the `ghash` crate computes; Ghash.v's convention:
   a block is the number [block_to_N] of its 16 bytes read big-endian).

   What is modelled, field by field:
     cipher : Aes256Ctr = ctr::Ctr128BE<Aes256>
        = (g_iv, g_pos).  g_iv is the 16-byte initial counter block
        nonce || 00 00 00 01.  Ctr128BE treats the WHOLE block as one 128-bit
        big-endian counter: key-stream block k is E(be128(int(iv) + k mod 2^128)).
        (SP 800-38D's inc32 only increments the last 32 bits; the two agree as
        long as 1 + k < 2^32, see [ctr128_block_ctr_block] in GcmProofs.v.)
        g_pos is the byte position in the key stream: [seek p] sets it,
        [apply_keystream buf] xors buf with key-stream bytes g_pos .. g_pos+|buf|
        and advances g_pos.
     ghash : GHash = (g_h, g_acc): key H = E(0^128) and accumulator Y;
        update([X])        : Y <- (Y xor X) . H
        update_padded(data): update with the 16-byte blocks of data, the last
                             one zero-padded when data is not a multiple of 16
        finalize()         : the 16 bytes of Y
     associated_data_bits_len, current_block, bytes_encrypted: g_aad_bits,
        g_cur, g_enc.  The u64 fields are unbounded N here; they only reach the
        output through to_be_bytes = [be_bytes 8], which reduces mod 2^64, i.e.
        the release-profile wrapping behaviour (a debug build would panic on
        overflow; it needs >= 2^61 bytes). *)
From MLA Require Import Base.
From MLA.Concrete Require Import Hex Aes Ghash GcmSpec.
Open Scope N_scope.

(* ---------- the state ---------- *)

Record gstate := mk_gstate {
  g_iv : bytes;        (* cipher: initial counter block, nonce || 00000001 *)
  g_pos : N;           (* cipher: byte position in the key stream *)
  g_h : N;             (* ghash: key H *)
  g_acc : N;           (* ghash: accumulator *)
  g_aad_bits : N;      (* associated_data_bits_len *)
  g_cur : bytes;       (* current_block: ciphertext not yet hashed, < 16 bytes *)
  g_enc : N            (* bytes_encrypted *)
}.

Definition set_pos (s : gstate) (p : N) : gstate :=
  mk_gstate (g_iv s) p (g_h s) (g_acc s) (g_aad_bits s) (g_cur s) (g_enc s).
Definition set_acc (s : gstate) (a : N) : gstate :=
  mk_gstate (g_iv s) (g_pos s) (g_h s) a (g_aad_bits s) (g_cur s) (g_enc s).
Definition set_cur (s : gstate) (c : bytes) : gstate :=
  mk_gstate (g_iv s) (g_pos s) (g_h s) (g_acc s) (g_aad_bits s) c (g_enc s).
Definition set_enc (s : gstate) (n : N) : gstate :=
  mk_gstate (g_iv s) (g_pos s) (g_h s) (g_acc s) (g_aad_bits s) (g_cur s) n.

(* Ctr128BE: block k of the key stream is E of this; be_bytes 16 reduces mod 2^128 *)
Definition ctr128_block (iv : bytes) (k : N) : bytes := be_bytes 16 (be_val iv + k).

(* "len(A) || len(C)" block of into_tag / decrypt; the second argument is in BYTES *)
Definition len_block (aad_bits nbytes : N) : bytes :=
  be_bytes 8 aad_bits ++ be_bytes 8 (nbytes * 8).

Section Gcm.
  Variable E : bytes -> bytes.
  Variable gmul : N -> N -> N.

  (* ----- GHash ----- *)

  (* update(&[blk]) *)
  Definition gh_block (h acc : N) (blk : bytes) : N :=
    gmul (N.lxor acc (block_to_N blk)) h.
  (* update(blocks), blocks already as numbers; same shape as Ghash.ghash_from *)
  Definition gh_from (h y : N) (blocks : list N) : N :=
    fold_left (fun y x => gmul (N.lxor y x) h) blocks y.
  (* update_padded(data) *)
  Definition gh_update_padded (h acc : N) (data : bytes) : N :=
    gh_from h acc (blocks_of (pad16 data)).

  (* ----- Ctr128BE key stream ----- *)

  (* n consecutive key-stream blocks starting with block k *)
  Fixpoint ks_blocks (iv : bytes) (n : nat) (k : N) : bytes :=
    match n with
    | O => []
    | S n' => E (ctr128_block iv k) ++ ks_blocks iv n' (k + 1)
    end.

  (* key-stream bytes pos .. pos+n *)
  Definition ks_range (iv : bytes) (pos n : N) : bytes :=
    sliceN (pos mod 16) n
      (ks_blocks iv (N.to_nat ((pos mod 16 + n + 15) / 16)) (pos / 16)).

  Definition apply_keystream (s : gstate) (buf : bytes) : gstate * bytes :=
    (set_pos s (g_pos s + len buf),
     xor_bytes buf (ks_range (g_iv s) (g_pos s) (len buf))).

  (* ----- AesGcm256::new ----- *)

  Definition gcm_new (nonce aad : bytes) : gstate :=
    let h := block_to_N (E (repeat 0 16)) in
    {| g_iv := nonce ++ [0; 0; 0; 1];          (* counter_block[..12] = nonce; [15] = 1 *)
       g_pos := 16;                            (* cipher.seek(BLOCK_SIZE) *)
       g_h := h;
       g_acc := gh_update_padded h 0 aad;      (* ghash.update_padded(associated_data) *)
       g_aad_bits := len aad * 8;
       g_cur := [];
       g_enc := 0 |}.

  (* ----- AesGcm256::encrypt ----- *)

  (* for chunk in chunks_exact_mut(16): apply_keystream(chunk); ghash.update(chunk) *)
  Fixpoint enc_chunks (n : nat) (s : gstate) (buf : bytes) : gstate * bytes :=
    match n with
    | O => (s, [])
    | S n' =>
      let '(s1, c) := apply_keystream s (takeN 16 buf) in
      let s2 := set_acc s1 (gh_block (g_h s1) (g_acc s1) c) in
      let '(s3, out) := enc_chunks n' s2 (dropN 16 buf) in
      (s3, c ++ out)
    end.

  (* lines 102-116: the part of encrypt that runs with current_block empty *)
  Definition enc_aligned (s : gstate) (buf : bytes) : gstate * bytes :=
    let n := len buf / 16 in
    let '(s1, out) := enc_chunks (N.to_nat n) s buf in
    match dropN (16 * n) buf with            (* chunks.into_remainder() *)
    | [] => (s1, out)
    | rem =>
      let '(s2, c) := apply_keystream s1 rem in
      (set_cur s2 (g_cur s2 ++ c), out ++ c)
    end.

  (* encrypt(&mut self, buffer): the new state and the buffer contents afterwards.
     [16 - len (g_cur s)] is BLOCK_SIZE - current_block.len(): it would underflow
     (panic) for a current_block longer than 16, which no sequence of calls produces. *)
  Definition gcm_encrypt_piece (s : gstate) (buf : bytes) : gstate * bytes :=
    let s := set_enc s (g_enc s + len buf) in
    match g_cur s with
    | [] => enc_aligned s buf
    | _ :: _ =>
      if len (g_cur s) + len buf <? 16 then
        (* still not a full block: encrypt, remember, return *)
        let '(s1, c) := apply_keystream s buf in
        (set_cur s1 (g_cur s1 ++ c), c)
      else
        (* split_at_mut(BLOCK_SIZE - current_block.len()) *)
        let k := 16 - len (g_cur s) in
        let '(s1, c) := apply_keystream s (takeN k buf) in
        let cur := g_cur s1 ++ c in
        let s2 := set_cur (set_acc s1 (gh_block (g_h s1) (g_acc s1) cur)) [] in
        let '(s3, out) := enc_aligned s2 (dropN k buf) in
        (s3, c ++ out)
    end.

  (* ----- AesGcm256::into_tag ----- *)

  Definition gcm_into_tag (s : gstate) : bytes :=
    let acc1 := gh_update_padded (g_h s) (g_acc s) (g_cur s) in
    let acc2 := gh_block (g_h s) acc1 (len_block (g_aad_bits s) (g_enc s)) in
    let tag := N_to_block acc2 in                       (* ghash.finalize() *)
    snd (apply_keystream (set_pos s 0) tag).            (* seek(0); apply_keystream(tag) *)

  (* ----- AesGcm256::decrypt_unauthenticated ----- *)

  Definition gcm_decrypt_unauth (s : gstate) (buf : bytes) : gstate * bytes :=
    apply_keystream s buf.

  (* ----- AesGcm256::decrypt ----- *)

  (* for chunk in chunks_exact_mut(16): ghash.update(chunk); apply_keystream(chunk) *)
  Fixpoint dec_chunks (n : nat) (s : gstate) (buf : bytes) : gstate * bytes :=
    match n with
    | O => (s, [])
    | S n' =>
      let chunk := takeN 16 buf in
      let s1 := set_acc s (gh_block (g_h s) (g_acc s) chunk) in
      let '(s2, p) := apply_keystream s1 chunk in
      let '(s3, out) := dec_chunks n' s2 (dropN 16 buf) in
      (s3, p ++ out)
    end.

  (* let rem = chunks.into_remainder();
     if !rem.is_empty() { ghash.update_padded(rem); apply_keystream(rem) } *)
  Definition dec_rem (s : gstate) (rem : bytes) : gstate * bytes :=
    match rem with
    | [] => (s, [])
    | _ :: _ =>
      let s' := set_acc s (gh_update_padded (g_h s) (g_acc s) rem) in
      apply_keystream s' rem
    end.

  (* decrypt(&mut self, buffer) -> Tag: (state afterwards, buffer afterwards, tag).
     It neither reads nor writes current_block and bytes_encrypted; the hash
     state keeps the absorbed length block (the tag comes from a clone), and the
     cipher is left at position 16 (seek(0) + 16 tag bytes). *)
  Definition gcm_decrypt (s : gstate) (buf : bytes) : gstate * bytes * bytes :=
    let n := len buf / 16 in
    let '(s1, out) := dec_chunks (N.to_nat n) s buf in
    let '(s2, p) := dec_rem s1 (dropN (16 * n) buf) in
    let s3 := set_acc s2 (gh_block (g_h s2) (g_acc s2) (len_block (g_aad_bits s2) (len buf))) in
    let tag := N_to_block (g_acc s3) in                 (* ghash.clone().finalize() *)
    let '(s4, t) := apply_keystream (set_pos s3 0) tag in
    (s4, out ++ p, t).

  (* ----- a sequence of encrypt calls ----- *)

  Fixpoint gcm_encrypt_pieces (s : gstate) (ps : list bytes) : gstate * list bytes :=
    match ps with
    | [] => (s, [])
    | p :: ps' =>
      let '(s1, o) := gcm_encrypt_piece s p in
      let '(s2, os) := gcm_encrypt_pieces s1 ps' in
      (s2, o :: os)
    end.

  (* new; encrypt piece by piece; into_tag *)
  Definition gcm_encrypt_incremental (nonce aad : bytes) (ps : list bytes) : list bytes * bytes :=
    let '(s, outs) := gcm_encrypt_pieces (gcm_new nonce aad) ps in
    (outs, gcm_into_tag s).
End Gcm.

(* ---------- the concrete instance ---------- *)

Definition E_aes (rk : list bytes) : bytes -> bytes := aes_encrypt_rk rk.

Definition aesgcm_new (rk : list bytes) := gcm_new (E_aes rk) gf_mul.
Definition aesgcm_encrypt (rk : list bytes) := gcm_encrypt_piece (E_aes rk) gf_mul.
Definition aesgcm_into_tag (rk : list bytes) := gcm_into_tag (E_aes rk) gf_mul.
Definition aesgcm_decrypt (rk : list bytes) := gcm_decrypt (E_aes rk) gf_mul.
Definition aesgcm_decrypt_unauth (rk : list bytes) := gcm_decrypt_unauth (E_aes rk).
Definition aesgcm_encrypt_incremental (rk : list bytes) :=
  gcm_encrypt_incremental (E_aes rk) gf_mul.

(* cut b into pieces of the given sizes (the last ones clipped to what is left) *)
Fixpoint split_sizes (sizes : list nat) (b : bytes) : list bytes :=
  match sizes with
  | [] => []
  | n :: r => firstn n b :: split_sizes r (skipn n b)
  end.

Definition tc_rk : list bytes := aes256_expand tc_key.
Definition tc15_tag : bytes := hex_bytes "b094dac5d93471bdec1a502270e3cc6c".
Definition tc16_tag : bytes := hex_bytes "76fc6ece0f4e1768cddf8853bb2d551b".

(* the pieces are what they should be *)
Example split_sizes_ex :
  map (@length N) (split_sizes [1; 15; 16; 17; 15]%nat tc_pt64) = [1; 15; 16; 17; 15]%nat
  /\ concat (split_sizes [1; 15; 16; 17; 15]%nat tc_pt64) = tc_pt64
  /\ concat (split_sizes [0; 64]%nat tc_pt64) = tc_pt64
  /\ concat (split_sizes [5; 5; 5; 49]%nat tc_pt64) = tc_pt64
  /\ map (@length N) (split_sizes [1; 15; 16; 17; 15]%nat (firstn 60 tc_pt64))
     = [1; 15; 16; 17; 11]%nat.
Proof. vm_compute. repeat split; reflexivity. Qed.

(* GCM test case 15 (64 bytes, no AAD) fed in pieces *)
Example inc_tc15_a :
  let '(outs, tag) := aesgcm_encrypt_incremental tc_rk tc_iv []
                        (split_sizes [1; 15; 16; 17; 15]%nat tc_pt64) in
  (concat outs, tag, map (@length N) outs)
  = (tc_ct64, tc15_tag, [1; 15; 16; 17; 15]%nat).
Proof. vm_compute. reflexivity. Qed.
Example inc_tc15_b :
  let '(outs, tag) := aesgcm_encrypt_incremental tc_rk tc_iv []
                        (split_sizes [0; 64]%nat tc_pt64) in
  (concat outs, tag) = (tc_ct64, tc15_tag).
Proof. vm_compute. reflexivity. Qed.
Example inc_tc15_c :
  let '(outs, tag) := aesgcm_encrypt_incremental tc_rk tc_iv []
                        (split_sizes [5; 5; 5; 49]%nat tc_pt64) in
  (concat outs, tag) = (tc_ct64, tc15_tag).
Proof. vm_compute. reflexivity. Qed.

(* GCM test case 16 (60 bytes, 20 bytes of AAD) fed in pieces; the last piece is
   clipped, so the sizes are [1;15;16;17;11], [0;60], [5;5;5;45] *)
Example inc_tc16_a :
  let '(outs, tag) := aesgcm_encrypt_incremental tc_rk tc_iv tc_aad
                        (split_sizes [1; 15; 16; 17; 15]%nat (firstn 60 tc_pt64)) in
  (concat outs, tag) = (firstn 60 tc_ct64, tc16_tag).
Proof. vm_compute. reflexivity. Qed.
Example inc_tc16_b :
  let '(outs, tag) := aesgcm_encrypt_incremental tc_rk tc_iv tc_aad
                        (split_sizes [0; 64]%nat (firstn 60 tc_pt64)) in
  (concat outs, tag) = (firstn 60 tc_ct64, tc16_tag).
Proof. vm_compute. reflexivity. Qed.
Example inc_tc16_c :
  let '(outs, tag) := aesgcm_encrypt_incremental tc_rk tc_iv tc_aad
                        (split_sizes [5; 5; 5; 49]%nat (firstn 60 tc_pt64)) in
  (concat outs, tag) = (firstn 60 tc_ct64, tc16_tag).
Proof. vm_compute. reflexivity. Qed.

(* the incremental model against the one-shot specification, same inputs *)
Example inc_vs_spec_tc16 :
  let '(outs, tag) := aesgcm_encrypt_incremental tc_rk tc_iv tc_aad
                        (split_sizes [3; 0; 30; 1; 26]%nat (firstn 60 tc_pt64)) in
  (concat outs, tag) = gcm_encrypt_rk tc_rk tc_iv tc_aad (firstn 60 tc_pt64).
Proof. vm_compute. reflexivity. Qed.

(* decrypt: plaintext and tag of TC15 / TC16; decrypt_unauthenticated: plaintext *)
Example dec_tc15 :
  let '(_, pt, tag) := aesgcm_decrypt tc_rk (aesgcm_new tc_rk tc_iv []) tc_ct64 in
  (pt, tag) = (tc_pt64, tc15_tag).
Proof. vm_compute. reflexivity. Qed.
Example dec_tc16 :
  let '(_, pt, tag) := aesgcm_decrypt tc_rk (aesgcm_new tc_rk tc_iv tc_aad) (firstn 60 tc_ct64) in
  (pt, tag) = (firstn 60 tc_pt64, tc16_tag).
Proof. vm_compute. reflexivity. Qed.
Example dec_unauth_tc16 :
  snd (aesgcm_decrypt_unauth tc_rk (aesgcm_new tc_rk tc_iv tc_aad) (firstn 60 tc_ct64))
  = firstn 60 tc_pt64.
Proof. vm_compute. reflexivity. Qed.

(* What `decrypt` leaves behind (not an SP 800-38D operation; recorded as observed
   behaviour of the model): a second call on the same object restarts the key
   stream at the first data byte (position 16), so it returns the right plaintext,
   but its tag is computed over the first message, the first length block and the
   second message: it is not the GCM tag. *)
Example dec_twice_tc15 :
  let s0 := aesgcm_new tc_rk tc_iv [] in
  let '(s1, pt1, tag1) := aesgcm_decrypt tc_rk s0 tc_ct64 in
  let '(s2, pt2, tag2) := aesgcm_decrypt tc_rk s1 tc_ct64 in
  (g_pos s1, pt1, tag1, pt2, bytes_eqb tag2 tc15_tag)
  = (16, tc_pt64, tc15_tag, tc_pt64, false).
Proof. vm_compute. reflexivity. Qed.
