(* RoundTripGlue.v — C01: from the writer invariant at finalize to what the reader proofs
   need: bounded well-formed blocks, a well-formed footer, HashMap lookups through any
   iteration order (permutation), list_files. *)
From MLA Require Import Limit.
From MLA Require Import Base Stream Blocks Writer Reader RoundTripBlocks RoundTripFooter RoundTripWriter.
From Coq Require Import ZifyBool ZifyNat ZifyN Permutation.
Open Scope N_scope.

(* ---------- lookups in a map given in any order ---------- *)
Lemma flookup_notin m k : ~ In k (map fst m) -> flookup m k = None.
Proof.
  induction m as [|[k0 v0] m IH]; cbn [flookup map fst In]; [reflexivity|].
  intros Hn. rewrite IH by tauto.
  destruct (bytes_eqb k0 k) eqn:E; [|reflexivity]. apply bytes_eqb_eq in E. tauto.
Qed.
Lemma flookup_in m k v : NoDup (map fst m) -> In (k, v) m -> flookup m k = Some v.
Proof.
  induction m as [|[k0 v0] m IH]; cbn [flookup map fst In]; [tauto|].
  intros Hnd Hin. inversion Hnd as [|? ? Hnin Hnd']; subst. destruct Hin as [Hin|Hin].
  - injection Hin as -> ->. rewrite (flookup_notin m k Hnin), bytes_eqb_refl. reflexivity.
  - rewrite (IH Hnd' Hin). reflexivity.
Qed.
Lemma flookup_perm m f k v : Permutation m f -> NoDup (map fst f) -> In (k, v) f -> flookup m k = Some v.
Proof.
  intros Hp Hnd Hin. apply flookup_in.
  - apply (Permutation_NoDup (l := map fst f)); [apply Permutation_map; symmetry; exact Hp | exact Hnd].
  - apply (Permutation_in (l := f)); [symmetry; exact Hp | exact Hin].
Qed.
Lemma flookup_perm_none m f k : Permutation m f -> ~ In k (map fst f) -> flookup m k = None.
Proof.
  intros Hp Hn. apply flookup_notin. intros Hin. apply Hn.
  apply (Permutation_in (l := map fst m)); [apply Permutation_map; exact Hp | exact Hin].
Qed.

Lemma dedup_names_nodup m : forall seen, NoDup (map fst m) -> (forall k, In k (map fst m) -> ~ In k seen) ->
  dedup_names m seen = map fst m.
Proof.
  induction m as [|[k v] m IH]; intros seen Hnd Hdis; cbn [dedup_names map fst]; [reflexivity|].
  inversion Hnd as [|? ? Hnin Hnd']; subst.
  destruct (existsb (bytes_eqb k) seen) eqn:E.
  - apply existsb_exists in E. destruct E as (x & Hx & Hk). apply bytes_eqb_eq in Hk. subst x.
    exfalso. apply (Hdis k); [left; reflexivity | exact Hx].
  - f_equal. apply IH; [exact Hnd'|]. intros k' Hk' [<-|Hs]; [exact (Hnin Hk')|].
    apply (Hdis k'); [right; exact Hk' | exact Hs].
Qed.

(* ---------- footer of the writer ---------- *)
Lemma footer_in s name id fi : In (name, id) (w_files s) -> alookup (w_ids s) id = Some fi ->
  In (name, fi) (w_footer s).
Proof.
  intros Hin Hl. unfold w_footer. apply in_flat_map. exists (name, id). split; [exact Hin|].
  cbn [fst snd]. rewrite Hl. left. reflexivity.
Qed.
Lemma footer_in_inv s name fi : In (name, fi) (w_footer s) ->
  exists id, In (name, id) (w_files s) /\ alookup (w_ids s) id = Some fi.
Proof.
  unfold w_footer. intros Hin. apply in_flat_map in Hin. destruct Hin as ([n i] & Hin & Hx).
  cbn [fst snd] in Hx. destruct (alookup (w_ids s) i) eqn:E; [|destruct Hx].
  destruct Hx as [Hx|[]]. injection Hx as <- <-. exists i. auto.
Qed.
Lemma footer_keys s : (forall name id, In (name, id) (w_files s) -> alookup (w_ids s) id <> None) ->
  map fst (w_footer s) = map fst (w_files s).
Proof.
  unfold w_footer. induction (w_files s) as [|[n i] l IH]; intros Hall; cbn [flat_map map fst]; [reflexivity|].
  cbn [fst snd]. destruct (alookup (w_ids s) i) eqn:E.
  - cbn [app map fst]. f_equal. apply IH. intros name id Hin. apply (Hall name id). right. exact Hin.
  - exfalso. apply (Hall n i); [left; reflexivity | exact E].
Qed.

Section Glue.
  Context {LIM : Limit}.
  Variable FNMAX : N.
  Variables T_START T_CONTENT T_EOA T_EOF : N.
  Variable H : bytes -> bytes.

  Notation ser_block := (ser_block T_START T_CONTENT T_EOA T_EOF).
  Notation ser_blocks := (ser_blocks T_START T_CONTENT T_EOA T_EOF).
  Notation run_offs := (run_offs T_START T_CONTENT T_EOA T_EOF).
  Notation WInv := (WInv FNMAX T_START T_CONTENT T_EOA T_EOF H).
  Notation FileSt := (FileSt T_START T_CONTENT T_EOA T_EOF H).
  Notation wfb := (wfb FNMAX).

  Lemma in_ser_le x bl : In x bl -> len (ser_block x) <= len (ser_blocks bl).
  Proof.
    induction bl as [|y bl IH]; cbn [In]; [tauto|]. rewrite ser_blocks_cons, len_app.
    intros [->|Hin]; [lia | specialize (IH Hin); lia].
  Qed.
  Lemma len_blocks_le bl : len bl <= len (ser_blocks bl).
  Proof.
    induction bl as [|y bl IH]; [unfold len; cbn [length]; lia|].
    rewrite ser_blocks_cons, len_app, len_cons.
    pose proof (len_ser_block_pos T_START T_CONTENT T_EOA T_EOF y). lia.
  Qed.
  Lemma len_names_le bl : len (names_of bl) <= len bl.
  Proof.
    induction bl as [|y bl IH]; [unfold len; cbn; lia|].
    rewrite (names_of_app [y] bl : names_of (y :: bl) = _). rewrite len_app, len_cons.
    assert (len (names_of [y]) <= 1) by (destruct y; unfold len; cbn; lia). lia.
  Qed.
  Lemma run_offs_bound id bl : forall prev pos,
    Forall (fun o => o < pos + len (ser_blocks bl)) (run_offs id prev pos bl) /\
    len (run_offs id prev pos bl) <= len bl.
  Proof.
    induction bl as [|y bl IH]; intros prev pos; cbn [RoundTripBlocks.run_offs].
    - split; [constructor | unfold len; cbn [length]; lia].
    - destruct (IH (block_id y) (pos + len (ser_block y))) as [IH1 IH2].
      pose proof (len_ser_block_pos T_START T_CONTENT T_EOA T_EOF y) as Hy.
      rewrite ser_blocks_cons, len_app, (len_cons y bl). split.
      + apply Forall_app. split.
        * destruct (has_id id y && negb (is_id prev id)); constructor; [lia | constructor].
        * eapply Forall_impl; [|exact IH1]. cbn beta. intros; lia.
      + rewrite len_app. destruct (has_id id y && negb (is_id prev id)); [rewrite len_cons, len_nil|rewrite len_nil]; lia.
  Qed.
  Lemma len_datas_le id bl : len (concat (datas id bl)) <= len (ser_blocks bl).
  Proof.
    induction bl as [|y bl IH]; [unfold len; cbn; lia|].
    change (y :: bl) with ([y] ++ bl) at 1. rewrite datas_app, concat_app, len_app, ser_blocks_cons, len_app.
    assert (len (concat (datas id [y])) <= len (ser_block y)); [|lia].
    unfold datas. cbn [proj filter]. destruct (has_id id y); [|unfold len; cbn; lia].
    destruct y; cbn [flat_map dat app concat Blocks.ser_block]; rewrite ?app_nil_r, ?len_app; try (unfold len; cbn [length]; lia).
    rewrite len_cons, !len_app. lia.
  Qed.

  Variable s : wstate.
  Variable bl : list block.
  Hypothesis HI : WInv s bl.
  Hypothesis Hlen : len (ser_blocks bl) < 2 ^ 64.

  Lemma block_id_lt x i : In x bl -> block_id x = Some i -> i < w_next s.
  Proof.
    intros Hin Hi. pose proof (wi_file _ _ _ _ _ _ _ _ HI i) as Hf. unfold RoundTripWriter.FileSt in Hf.
    destruct (N.ltb_spec i (w_next s)) as [Hlt|_]; [exact Hlt|].
    destruct Hf as (_ & _ & Hp). exfalso.
    assert (Hx : In x (proj i bl)) by (apply proj_in; [exact Hin | unfold has_id; rewrite Hi; apply N.eqb_refl]).
    rewrite Hp in Hx. exact Hx.
  Qed.

  Lemma next_bound : w_next s < 2 ^ 64.
  Proof.
    pose proof (wi_next _ _ _ _ _ _ _ _ HI) as Hn. rewrite (wi_out _ _ _ _ _ _ _ _ HI) in Hn. lia.
  Qed.

  Lemma blocks_wfb : Forall wfb bl /\ ~ In BEnd bl.
  Proof.
    pose proof (wi_wf _ _ _ _ _ _ _ _ HI) as Hw0. rewrite Forall_forall in Hw0. split.
    - apply Forall_forall. intros x Hin. pose proof (Hw0 x Hin) as Hw. pose proof (in_ser_le x bl Hin) as Hle.
      pose proof next_bound as Hnb.
      destruct x as [i name|i d|i h|]; cbn [RoundTripWriter.wfb0 RoundTripBlocks.wfb Blocks.ser_block] in *.
      + pose proof (block_id_lt _ i Hin eq_refl). rewrite !len_app in Hle. destruct Hw. repeat split; auto; lia.
      + pose proof (block_id_lt _ i Hin eq_refl). rewrite !len_app in Hle. repeat split; auto; lia.
      + pose proof (block_id_lt _ i Hin eq_refl). split; [lia | exact Hw].
      + exact I.
    - intros Hin. exact (Hw0 _ Hin).
  Qed.

  Hypothesis Hopen : w_open s = [].

  (* every started file is closed, with its recorded information *)
  Lemma final_file name id : In (name, id) (w_files s) ->
    exists fi nm, alookup (w_ids s) id = Some fi /\
      fi_offsets fi = run_offs id None 0 bl /\ fi_size fi = len (concat (datas id bl)) /\
      proj id bl = BStart id nm :: map (BContent id) (datas id bl) ++ [BEof id (H (concat (datas id bl)))] /\
      exists pre post, bl = pre ++ BEof id (H (concat (datas id bl))) :: post /\ fi_eof fi = len (ser_blocks pre).
  Proof.
    intros Hin. pose proof (wi_fids _ _ _ _ _ _ _ _ HI name id Hin) as Hlt.
    pose proof (wi_file _ _ _ _ _ _ _ _ HI id) as Hf. unfold RoundTripWriter.FileSt in Hf.
    destruct (N.ltb_spec id (w_next s)); [|lia]. rewrite Hopen in Hf. cbn [alookup] in Hf.
    destruct Hf as (nm & fi & Hfi & Hoff & Hsz & Hp & He). exists fi, nm. auto.
  Qed.

  Lemma final_footer_keys : map fst (w_footer s) = map fst (w_files s).
  Proof.
    apply footer_keys. intros name id Hin. destruct (final_file name id Hin) as (fi & nm & -> & _). discriminate.
  Qed.

  Lemma final_footer_wf m : Permutation m (w_footer s) -> wf_footer m.
  Proof.
    intros Hp. split.
    - unfold len. rewrite (Permutation_length Hp). fold (len (w_footer s)).
      assert (len (w_footer s) = len (w_files s)).
      { unfold len. rewrite <- (map_length fst (w_footer s)), final_footer_keys, map_length. reflexivity. }
      rewrite (wi_files _ _ _ _ _ _ _ _ HI) in *. pose proof (len_names_le bl). pose proof (len_blocks_le bl). lia.
    - apply Forall_forall. intros [name fi] Hin. apply (Permutation_in _ Hp) in Hin.
      destruct (footer_in_inv _ _ _ Hin) as (id & Hf & Hl).
      destruct (final_file name id Hf) as (fi' & nm & Hl' & Hoff & Hsz & Hproj & pre & post & Hbl & Heof).
      rewrite Hl in Hl'. injection Hl' as <-.
      destruct blocks_wfb as [Hwf _]. rewrite Forall_forall in Hwf.
      assert (Hst : In (BStart id name) bl).
      { rewrite (wi_files _ _ _ _ _ _ _ _ HI) in Hf. unfold names_of in Hf. apply in_flat_map in Hf.
        destruct Hf as (x & Hx & Hxx). destruct x as [i0 n0| | |]; cbn [In] in Hxx; try contradiction.
        destruct Hxx as [Hxx|[]].
        injection Hxx as -> ->. exact Hx. }
      destruct (Hwf _ Hst) as (_ & _ & Hln & Hu).
      unfold wf_entry, wf_finfo. cbn [fst snd]. split; [exact Hln|]. split; [exact Hu|].
      destruct (run_offs_bound id bl None 0) as [Hb1 Hb2]. rewrite Hoff, Hsz, Heof.
      pose proof (len_blocks_le bl). pose proof (len_datas_le id bl).
      assert (len (ser_blocks pre) <= len (ser_blocks bl)) by (rewrite Hbl, ser_blocks_app, len_app; lia).
      repeat split; try lia.
      eapply Forall_impl; [|exact Hb1]. cbn beta. intros; lia.
  Qed.
End Glue.
