(* MemSize.v — C15: an explicit SIZE MEASURE (in bytes, nominal 64-bit sizes) of what the model's
   states stand for in the memory of the Rust process.  Definitions only; the bounds are in
   MemSizeProofs.v (archive writer), MemLayers.v (layer writers), MemReaders.v (linear
   extraction, repair).

   What each component stands for (mla/src/lib.rs unless said otherwise):

   archive writer (struct ArchiveWriter)
     W_FIXED            next_id, current_id (8 each), the three HashMap headers (files_info,
                        ids_info, state.hashes: 48 each), the Vec header of state.ids (24), the
                        enum tag and the Box of dest.  NOT: `config` (constant per archive: keys
                        and level) and `dest` itself (the layers: measured separately below).
     FILES_ENTRY + |name|   one entry of files_info : HashMap<String, ArchiveFileID>:
                        the String header (ptr, cap, len = 24), the u64 id, the name's bytes.
     IDS_ENTRY + 8 * |offsets|   one entry of ids_info : HashMap<ArchiveFileID, FileInfo>:
                        the u64 key, FileInfo { offsets: Vec<u64> (header 24), size: u64,
                        eof_offset: u64 }, and 8 bytes per element of offsets.
     OPEN_ENTRY         one open file in state = OpenedFiles { ids: Vec<ArchiveFileID>, hashes:
                        HashMap<ArchiveFileID, Sha256> }: 8 (ids element) + 8 (hashes key) +
                        SHA_STATE (size_of::<sha2::Sha256>(): 8 words of state, the 64-byte
                        block buffer, its position, the block counter).  The MODEL keeps in
                        w_open the bytes absorbed so far (H is a function of them): that list
                        is a proof device for the fixed-size streaming state and is NOT counted
                        by its length.
     w_out is the destination (what has been handed to `dest`), not memory: not counted.

   Not counted anywhere: spare capacity of Vec / HashMap (amortised doubling and the 7/8 load
   factor: at most a constant factor on the per-entry terms), allocator headers, stack.  These
   are runtime behaviour, measured by the job c15. *)
From MLA Require Import Limit.
From MLA Require Import Base Stream Blocks Writer EncLayer CompLayer Reader Repair.
Open Scope N_scope.

(* ---------- constants of the measure ---------- *)
Definition W_FIXED : N := 208.
Definition FILES_ENTRY : N := 32.
Definition IDS_ENTRY : N := 48.
Definition SHA_STATE : N := 112.
Definition OPEN_ENTRY : N := 16 + SHA_STATE.
Definition OFFSET_WORD : N := 8.

(* ---------- archive writer ---------- *)

Definition names_bytes (l : list (bytes * N)) : N := fold_right (fun e a => len (fst e) + a) 0 l.
Definition offs_total (l : list (N * finfo)) : N := fold_right (fun e a => len (fi_offsets (snd e)) + a) 0 l.

Definition nfiles (s : wstate) : N := len (w_files s).    (* files started *)
Definition nruns (s : wstate) : N := offs_total (w_ids s). (* offsets recorded: non-contiguous runs *)
Definition nopen (s : wstate) : N := len (w_open s).      (* files being written *)

Definition wmem (s : wstate) : N :=
  W_FIXED
  + (FILES_ENTRY * len (w_files s) + names_bytes (w_files s))
  + (IDS_ENTRY * len (w_ids s) + OFFSET_WORD * offs_total (w_ids s))
  + OPEN_ENTRY * len (w_open s).

(* counts of calls in a call list (syntactic: they do not look at sizes or contents) *)
Definition c_start (o : wop) : N := match o with OStart _ | OAdd _ _ _ => 1 | _ => 0 end.
Definition c_append (o : wop) : N := match o with OAppend _ _ _ | OAdd _ _ _ => 1 | _ => 0 end.
Definition c_name (o : wop) : N := match o with OStart n | OAdd n _ _ => len n | _ => 0 end.
Definition n_start (ops : list wop) : N := fold_right (fun o a => c_start o + a) 0 ops.
Definition n_append (ops : list wop) : N := fold_right (fun o a => c_append o + a) 0 ops.
Definition n_names (ops : list wop) : N := fold_right (fun o a => c_name o + a) 0 ops.

(* the start calls that SUCCEED in a run from s (the start inside add_file included), and the
   lengths of their names *)
Section OkStarts.
  Context {LIM : Limit}.
  Variable FNMAX : N.
  Variables T_START T_CONTENT T_EOA T_EOF : N.
  Variable H : bytes -> bytes.
  Variable order : footer -> footer.
  Definition start_ok (s : wstate) (o : wop) : bool :=
    match o with
    | OStart n | OAdd n _ _ => is_ok (snd (w_start FNMAX T_START T_CONTENT T_EOA T_EOF s n))
    | _ => false
    end.
  Fixpoint ok_starts (s : wstate) (ops : list wop) : N :=
    match ops with
    | [] => 0
    | o :: r => (if start_ok s o then 1 else 0)
                + ok_starts (fst (wstep FNMAX T_START T_CONTENT T_EOA T_EOF H order s o)) r
    end.
  Fixpoint ok_names (s : wstate) (ops : list wop) : N :=
    match ops with
    | [] => 0
    | o :: r => (if start_ok s o then c_name o else 0)
                + ok_names (fst (wstep FNMAX T_START T_CONTENT T_EOA T_EOF H order s o)) r
    end.
End OkStarts.

(* ---------- layer writers ---------- *)

(* EncryptionLayerWriter (layers/encrypt.rs) keeps: key (32), nonce_prefix (8),
   current_chunk_offset (8), current_ctr (4), the AesGcm256 object (AES-CTR state, GHASH state,
   a partial block of < 16 bytes: a constant).  It has NO plaintext buffer: each write encrypts
   at most min(CIPHERBUF, CHUNK - offset) bytes in a temporary Vec and hands them to the inner
   writer.  The model's ew_cur (the ciphertext GHASH has absorbed in the current chunk) is a
   proof device for the fixed-size GHASH state; it is bounded by CHUNK all the same. *)
Definition ENC_FIXED : N := 1024.
Definition ew_held (s : ewstate) : N := len (ew_cur s).                  (* the device *)
Definition ewmem (CIPHERBUF : N) : N := ENC_FIXED + CIPHERBUF.           (* what the Rust object keeps *)

(* CompressionLayerWriter (layers/compress.rs) keeps: the state (Ready / InData(written,
   Box<CompressorWriter>)), compressed_sizes : Vec<u32> (4 bytes per finished block), the level.
   The brotli encoder is external (its own window and hash tables: a constant for a given
   level and window, measured by c15); the model stands for it by the plaintext of the current
   block, cw_buffered. *)
Definition cw_buffered (w : cwriter) : N :=
  match cw_st w with WInData _ cur => len cur | _ => 0 end.
Definition COMP_FIXED : N := 64.
Definition cwmem (w : cwriter) : N := COMP_FIXED + cw_buffered w + 4 * len (cw_sizes w).

(* a sequence of Write::write calls with arbitrary buffers (write_all is such a sequence);
   returns the writer and the number of bytes accepted altogether *)
Section CompWrites.
  Context {LIM : Limit}.
  Variable BLOCK : N.
  Variable comp : bytes -> bytes.
  Fixpoint cw_writes (w : cwriter) (total : N) (bufs : list bytes) : cwriter * N :=
    match bufs with
    | [] => (w, total)
    | b :: r =>
      match cw_write BLOCK comp w b with
      | (w', Ok n) => cw_writes w' (total + n) r
      | (w', _) => cw_writes w' total r
      end
    end.
End CompWrites.

(* the same for the encryption writer: any Write::write calls, errors ignored (the state is
   unchanged by a failed write) *)
Section EncWrites.
  Context {LIM : Limit}.
  Variables CHUNK CIPHERBUF : N.
  Variable ks : N -> N -> N.
  Variable tagc : N -> bytes -> bytes.
  Fixpoint ew_writes (s : ewstate) (bufs : list bytes) : ewstate :=
    match bufs with
    | [] => s
    | b :: r =>
      match ew_write CHUNK CIPHERBUF ks tagc s b with
      | Ok (s', _) => ew_writes s' r
      | _ => ew_writes s r
      end
    end.
End EncWrites.

(* ---------- linear extraction (helpers::linear_extract, mla/src/helpers.rs) ---------- *)

(* id2filename : HashMap<ArchiveFileID, String>: key 8 + String header 24 + the name.
   Fixed: the BufReader's 8 KiB buffer and io::copy's 8 KiB piece. *)
Definition LX_ENTRY : N := 32.
Definition LX_FIXED : N := 2 * 8192 + 48.
Definition id_names_bytes (m : list (N * bytes)) : N := fold_right (fun e a => len (snd e) + a) 0 m.
Definition lxmem (ids : list (N * bytes)) : N := LX_FIXED + LX_ENTRY * len ids + id_names_bytes ids.

(* lx_loop with two ghost outputs: the PEAK of lxmem over all iterations and the number of
   FileStart blocks parsed.  lx_loop_ghost_erase (MemReaders.v): forgetting the ghosts gives
   exactly Reader.lx_loop. *)
Section LxGhost.
  Context {LIM : Limit}.
  Variable FNMAX : N.
  Variables T_START T_CONTENT T_EOA T_EOF : N.
  Variable S : Stream.
  Notation parse_block := (parse_block FNMAX T_START T_CONTENT T_EOA T_EOF S).

  Fixpoint lx_loop_g (fuel : nat) (s : st S) (export : list bytes) (ids : list (N * bytes))
           (acc : list (bytes * bytes)) (peak starts : N) : res (list (bytes * bytes)) * N * N :=
    let peak := N.max peak (lxmem ids) in
    match fuel with
    | O => (Err EFuel, peak, starts)
    | Datatypes.S fuel' =>
      match parse_block s with
      | (s1, Ok (PStart id name)) =>
        lx_loop_g fuel' s1 export (if name_in export name then id_insert ids id name else ids) acc peak (starts + 1)
      | (s1, Ok (PEof id _)) => lx_loop_g fuel' s1 export (id_remove ids id) acc peak starts
      | (s1, Ok (PContent id l)) =>
        match copy_take S fuel s1 l [] with
        | (s2, Ok d) =>
          match id_lookup ids id with
          | Some name => lx_loop_g fuel' s2 export ids (acc ++ [(name, d)]) peak starts
          | None => lx_loop_g fuel' s2 export ids acc peak starts
          end
        | (_, Err e) => (Err e, peak, starts)
        | (_, Crash c) => (Crash c, peak, starts)
        end
      | (s1, Ok PEnd) => (Ok acc, peak, starts)
      | (_, Err e) => (Err e, peak, starts)
      | (_, Crash c) => (Crash c, peak, starts)
      end
    end.
End LxGhost.

(* the metadata an ArchiveReader holds while extracting (the parsed footer: HashMap<String,
   FileInfo>): String header 24 + name + FileInfo 40 + 8 per offset *)
Definition FOOTER_ENTRY : N := 64.
Definition footer_mem (m : footer) : N :=
  fold_right (fun e a => FOOTER_ENTRY + len (fst e) + OFFSET_WORD * len (fi_offsets (snd e)) + a) 0 m.
Definition footer_names (m : footer) : N := fold_right (fun e a => len (fst e) + a) 0 m.
Definition footer_runs (m : footer) : N := fold_right (fun e a => len (fi_offsets (snd e)) + a) 0 m.

(* ---------- repair (ArchiveFailSafeReader::convert_to_archive) ---------- *)

(* id_failsafe2id_output : HashMap<u64,u64>            16 per entry
   id_failsafe2filename  : HashMap<u64,String>         8 + 24 per entry + the name
   id_failsafe_done      : Vec<u64>                    8 per entry
   id_failsafe2hash      : HashMap<u64,Sha256>         8 + SHA_STATE per entry (the model keeps the
                                                       absorbed bytes as a device: not counted)
   buf                   : vec![0; CACHE_SIZE]         CACHE (alive during a FileContent block)
   the output ArchiveWriter                            wmem (rp_out)
   fixed: the four table headers, the error value *)
Definition RP_FIXED : N := 256.
Definition rpmem {S : Stream} (CACHE : N) (st : rpstate S) : N :=
  RP_FIXED + CACHE
  + 16 * len (rp_ids S st)
  + (32 * len (rp_names S st) + id_names_bytes (rp_names S st))
  + 8 * len (rp_done S st)
  + (8 + SHA_STATE) * len (rp_hash S st)
  + wmem (rp_out S st).
