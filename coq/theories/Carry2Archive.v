(* Carry2Archive.v — work package `carry2`, part 1b: the END-TO-END round trip with generated code on both
   sides AND in every layer reader between them.
     writer side : the block stream is what the TRANSLATED ArchiveWriter (CarryWriter.src_wrun over gen/Src2.v)
                   left in its destination; below it the MODEL's layer writers (Archive.lower_write: compression
                   writer, then encryption writer, ANY cuts of the stream between the layers) — see the note below;
     reader side : the TRANSLATED ArchiveFooter::deserialize_from / list_files / get_hash / get_file /
                   BlocksToFileReader::read (gen/Src3d.v) over Carry2Stack.StackSrc = translated compression
                   reader over translated encryption reader over translated raw layer over ANY source that
                   behaves as a cursor over header ++ body (short reads included).
   Composition of CarryReader.roundtrip_src (stated for any refining stream) with Carry2Stack.stack_refines_src
   and ArchiveProofs.lower_write_ok; nothing is reproved.
   NOTE (what is not carried on the writer side): the layer writers' translations exist (SrcTie2b.ew_write_src,
   SrcTie3CompW.cw_write_sim / cw_finalize_src) as per-call simulations; folding them over the pieces into a
   "translated lower_write" needs a run function for each translated layer writer and an induction per layer
   (the analogue of CarryWriter.src_wrun_sim), and cw_finalize_src holds only when the sizes table passes the
   512 MiB bincode limit — not done here: the layer writers below the block stream are the MODEL's. *)
From MLA Require Import Limit.
From MLA Require Import Base Stream EncLayer CompLayer CompLayerProofs LayerStack Blocks Writer Reader
  RoundTripBlocks RoundTripWriter SrcTie2 SrcTie3ReaderRT Archive ArchiveProofs CarryWriter CarryReader Carry2Stack.
From MLAGen Require Src2 Src3d.
From Coq Require Import ZifyBool ZifyNat ZifyN Permutation.
Open Scope N_scope.

(* the canonical-form lemma of the model's lower layers with its unused section parameters discharged *)
Lemma lower_write_wire CHUNK TAG CIPHERBUF BLOCK LIMIT ksf tagf :
  0 < CHUNK -> 0 < TAG -> 0 < CIPHERBUF -> 0 < BLOCK -> BLOCK < 2 ^ 32 ->
  forall cfg cut_top cut_mid blocks,
    (wc_compress cfg = true -> 12 + 4 * nblocks BLOCK (len blocks) < 2 ^ 32) ->
    (wc_encrypt cfg = true -> nfull CHUNK (len (mid_of BLOCK cfg blocks)) + 2 < 2 ^ 32) ->
    (wc_compress cfg = true -> 12 + 4 * nblocks BLOCK (len blocks) <= LIMIT) ->
    lower_write CHUNK CIPHERBUF BLOCK LIMIT ksf tagf cfg cut_top cut_mid blocks = Ok (wire_of CHUNK BLOCK ksf tagf cfg blocks).
Proof.
  intros HC HT HCB HB HB32.
  apply (lower_write_ok CHUNK TAG CIPHERBUF BLOCK LIMIT 0 (fun _ => repeat 0 32%nat) (fun _ => repeat 0 32%nat)
           (fun _ b => b) (fun b => b) (fun _ m => m) (fun _ c => c) (fun _ _ => repeat 0 16%nat) ksf tagf (fun b => b));
    try assumption; try reflexivity.
  intros _ m Hm. exact Hm.
Qed.

Section Carry2Archive.
  Local Hint Extern 0 Limit => exact Src3d.BINCODE_MAX_DESERIALIZE : typeclass_instances.
  Variables CHUNK TAG CIPHERBUF BLOCK LIMIT FNMAX : N.
  Variables TS TC TA TE : N.
  Variable H : bytes -> bytes.
  Variable order : footer -> footer.
  Variable ksf : bytes -> bytes -> N -> N -> N.
  Variable tagf : bytes -> bytes -> N -> bytes -> bytes.
  Variable dec : bytes -> bytes.
  Hypothesis HCHUNK : 0 < CHUNK.
  Hypothesis HTAG : 0 < TAG.
  Hypothesis HCB : 0 < CIPHERBUF.
  Hypothesis Hsz : CHUNK + TAG <= 2 ^ 31.
  Hypothesis HB : 0 < BLOCK.
  Hypothesis HB32 : BLOCK < 2 ^ 32.
  Hypothesis Htags : tags_distinct TS TC TA TE.
  Hypothesis HHlen : forall x, len (H x) = 32.
  Hypothesis Horder : forall f, Permutation (order f) f.

  (* the writer configuration: both layers *)
  Variable cfg : wconfig.
  Hypothesis Hcmp : wc_compress cfg = true.
  Hypothesis Henc : wc_encrypt cfg = true.
  Hypothesis Hdc : forall x, dec (wc_comp cfg x) = x.
  Notation ks := (ksf (wc_key cfg) (wc_nonce cfg)).
  Notation tagc := (tagf (wc_key cfg) (wc_nonce cfg)).
  Hypothesis Htagc : forall i c, len (tagc i c) = TAG.

  (* the calls of the TRANSLATED ArchiveWriter, all successful, then its finalize *)
  Variable ops : list wop.
  Variable sf : Src2.ArchiveWriter.
  Variable rs : list (res N).
  Hypothesis Hrun : src_wrun FNMAX TS TC TA TE H order aw0 (ops ++ [OFinalize]) = (sf, rs).
  Hypothesis Hok : Forall (fun r => is_ok r = true) rs.
  Hypothesis Hutf : forallb op_utf8 ops = true.
  Hypothesis Hfoot32 : len (ser_footer_map (order (w_footer (absW sf)))) < 2 ^ 32.

  Notation blocks := (Src2.dest sf).
  Notation nb := (nblocks BLOCK (len blocks)).
  Hypothesis Hlim : 12 + 4 * nb <= LIMIT /\ 12 + 4 * nb < 2 ^ 32.
  Hypothesis HL : len blocks < 2 ^ 63.
  Hypothesis Hchunks : nfull CHUNK (len (comp_format BLOCK (wc_comp cfg) blocks)) + 2 < 2 ^ 32.
  Hypothesis Hcs : forall j, j < nb -> len (wc_comp cfg (block_at BLOCK blocks j)) < 2 ^ 32.

  Variables cut_top cut_mid : list N.
  Variable header : bytes.
  Variable site_index site_enc site_c1 site_c2 site_c3 : N.
  Variable fuel_enc : nat.

  Notation Stack S := (StackSrc CHUNK TAG BLOCK ks tagc dec S site_enc site_c1 site_c2 site_c3 fuel_enc).
  Notation Rstack S Rin := (Rstack_src CHUNK TAG BLOCK ks tagc (wc_comp cfg) dec header blocks nb S Rin
                              site_enc site_c1 site_c2 site_c3 fuel_enc).
  (* ArchiveReader::from_config below the footer: the translated constructors and initialize of the three layers *)
  Notation stack_open S := (stack_open_src CHUNK TAG BLOCK LIMIT ks tagc dec S site_enc site_c1 site_c2 site_c3 fuel_enc).

  Theorem archive_roundtrip_src :
    exists body,
      (* the model's layer writers over the translated writer's block stream, any cuts *)
      lower_write CHUNK CIPHERBUF BLOCK LIMIT ksf tagf cfg cut_top cut_mid blocks = Ok body /\
      forall (S : Stream) (Rin : st S -> N -> Prop),
        len (header ++ body) < 2 ^ 64 -> Refines S (header ++ body) Rin ->
        Refines (Stack S) blocks (Rstack S Rin) /\
        (* the source stands right behind the header *)
        forall i0 : st S, Rin i0 (len header) ->
          exists (x0 : st (Stack S)) (ar : Src3d.ArchiveReader (Stack S)),
            stack_open S i0 = Ok x0 /\ Rstack S Rin x0 0 /\
            src_open (Stack S) x0 = Ok ar /\
            (exists names, Src3d.list_files (Stack S) ar = (ar, Ok names) /\
               Permutation names (map fst (started 0 ops)) /\ NoDup names) /\
            (forall name, ~ In name (map fst (started 0 ops)) ->
               Src3d.get_file (Stack S) FNMAX TS TC TA TE site_index ar name = (ar, Ok None)) /\
            (forall name id, In (name, id) (started 0 ops) ->
               (exists ar', Src3d.get_hash (Stack S) FNMAX TS TC TA TE ar name = (ar', Ok (Some (H (pieces 0 id ops))))) /\
               exists fi, flookup (order (w_footer (absW sf))) name = Some fi /\
                 forall sizes : nat -> N, (forall i, 0 < sizes i) ->
                 forall zf fuel F : nat, (length (pieces 0 id ops) < fuel)%nat ->
                   (Datatypes.S zf * Datatypes.S (Datatypes.S (length (fi_offsets fi))) <= F)%nat ->
                   exists ar' x x',
                     Src3d.get_file (Stack S) FNMAX TS TC TA TE site_index ar name =
                       (ar', Ok (Some (name, x, len (pieces 0 id ops)))) /\
                     g_read_all (Stack S) FNMAX TS TC TA TE site_index F fuel x sizes 0%nat [] =
                       (x', Ok (pieces 0 id ops)) /\
                     Src3d.bfr_state (Stack S) x' = Src3d.Finish).
  Proof.
    exists (wire_of CHUNK BLOCK ksf tagf cfg blocks). split.
    - apply (lower_write_wire CHUNK TAG CIPHERBUF BLOCK LIMIT ksf tagf HCHUNK HTAG HCB HB HB32).
      + intros _. exact (proj2 Hlim).
      + intros _. unfold mid_of. rewrite Hcmp. exact Hchunks.
      + intros _. exact (proj1 Hlim).
    - intros S Rin Hlen Hin.
      assert (Hw : wire_of CHUNK BLOCK ksf tagf cfg blocks = encwire CHUNK BLOCK ks tagc (wc_comp cfg) blocks nb).
      { unfold wire_of, mid_of. rewrite Henc, Hcmp. reflexivity. }
      rewrite Hw in Hlen, Hin.
      assert (HR : Refines (Stack S) blocks (Rstack S Rin)).
      { exact (stack_refines_src CHUNK TAG BLOCK LIMIT HCHUNK HTAG Hsz HB HB32 ks tagc Htagc (wc_comp cfg) dec Hdc
                 header blocks nb (nblocks_ok BLOCK (len blocks) HB) Hlim HL Hchunks Hlen S Rin Hin
                 site_enc site_c1 site_c2 site_c3 fuel_enc). }
      split; [exact HR|]. intros i0 Hi0.
      destruct (stack_open_spec_src CHUNK TAG BLOCK LIMIT HCHUNK HTAG Hsz HB HB32 ks tagc Htagc (wc_comp cfg) dec Hdc
                  header blocks nb (nblocks_ok BLOCK (len blocks) HB) Hlim HL Hchunks Hlen S Rin Hin
                  site_enc site_c1 site_c2 site_c3 fuel_enc i0 Hcs Hi0) as (x0 & Hopen & Hx0).
      destruct (roundtrip_src FNMAX TS TC TA TE H order site_index Htags HHlen Horder ops sf rs Hrun Hok Hutf
                  ltac:(lia) Hfoot32 (Stack S) (Rstack S Rin) HR x0 0 Hx0) as (ar & Har & Hrest).
      exists x0, ar. split; [exact Hopen|]. split; [exact Hx0|]. split; [exact Har | exact Hrest].
  Qed.
End Carry2Archive.
