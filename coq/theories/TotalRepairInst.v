(* TotalRepairInst.v — C08, part 7': repair_total (TotalRepair.v) instantiated with the
   sources the repair entry points of Run.v use: the cursor over ANY bytes (layer-less
   archives) and the fail-safe decryptor, both modes, over ANY bytes (Run.FsEnc). *)
From MLA Require Import Limit.
From MLA Require Import Base Stream Blocks Writer Repair EncLayer Inst Run Total TotalEnc TotalRepair.
From MLA.Concrete Require Sha256.
From Coq Require Import ZifyBool ZifyNat ZifyN.
Open Scope N_scope.

(* the fail-safe decryptor as a (read-only) stream is tame; re-derived here from
   TotalEnc.fs_read_tame (the same statement exists in TotalRun.v) *)
Lemma fsenc_tame' (CH TG : N) ks tagc (unauth : bool) (w : bytes) :
  0 < CH -> len w < 2 ^ 32 * CH ->
  Tame (FsEnc CH TG ks tagc unauth (Cursor w))
       (Ienc CH (Cursor w) (fun _ => True) (fun s => s) (len w))
       (pos_enc CH (Cursor w)) (len w).
Proof.
  intros HC HM. constructor.
  - intros s n Hs. cbn [FsEnc rd st].
    exact (fs_read_tame CH TG ks tagc (Cursor w) (fun _ => True) (fun s => s) (len w)
             (cursor_tame_inner w) HC HM unauth s n Hs).
  - intros s wh Hs. cbn [FsEnc sk st]. split; [exact Hs|discriminate].
Qed.

Section Inst.
  Context {LIM : Limit}.
  Variable FNMAX CACHE : N.
  Variables T_START T_CONTENT T_EOA T_EOF : N.
  Variable H : bytes -> bytes.
  Hypothesis HCACHE : 0 < CACHE.
  Notation repair := (repair FNMAX CACHE T_START T_CONTENT T_EOA T_EOF H).
  Notation block_loop := (block_loop FNMAX CACHE T_START T_CONTENT T_EOA T_EOF H).

  (* layer-less: ANY bytes, any start offset, any output writer state *)
  Theorem repair_total_plain (w : bytes) fuel p out0 : (N.to_nat (len w) < fuel)%nat ->
    total (repair (Cursor w) fuel p out0).
  Proof.
    intros Hf.
    exact (repair_total FNMAX CACHE T_START T_CONTENT T_EOA T_EOF H (Cursor w) (fun _ => True) (fun s => s)
             (len w) (cursor_tame w) HCACHE fuel p out0 Logic.I Hf).
  Qed.

  Theorem repair_strong_plain (w : bytes) fuel p out0 : (N.to_nat (len w) < fuel)%nat ->
    match repair (Cursor w) fuel p out0 with
    | Ok _ => True | Err e => e = EState \/ e = EDeser | Crash _ => False
    end.
  Proof.
    intros Hf.
    apply (repair_total_strong FNMAX CACHE T_START T_CONTENT T_EOA T_EOF H (Cursor w) (fun _ => True)
             (fun s => s) (len w) (cursor_tame w) HCACHE fuel p out0 Logic.I).
    unfold remaining. lia.
  Qed.

  Theorem repair_tables_plain (w : bytes) fuel out0 : (N.to_nat (len w) < fuel)%nat ->
    match block_loop (Cursor w) fuel (mkRP (Cursor w) 0 out0 [] [] [] []) with
    | (_, Crash _) => False
    | (st, _) =>
      17 * len (rp_names _ st) + nbytes (rp_names _ st) <= len w /\
      17 * len (rp_ids _ st) <= len w /\ 17 * len (rp_hash _ st) <= len w /\
      41 * len (rp_done _ st) <= len w
    end.
  Proof.
    intros Hf.
    pose proof (repair_tables_bounded FNMAX CACHE T_START T_CONTENT T_EOA T_EOF H (Cursor w) (fun _ => True)
                  (fun s => s) (len w) (cursor_tame w) HCACHE fuel 0 out0 Logic.I Hf) as Hb.
    destruct (block_loop (Cursor w) fuel (mkRP (Cursor w) 0 out0 [] [] [] [])) as [st [x|e|c]];
      [|  |exact Hb]; rewrite N.sub_0_r in Hb; exact Hb.
  Qed.

  (* encrypted: ANY key stream / tag function, ANY bytes with fewer than 2^32 chunks, both
     fail-safe modes: the constructor, then repair from the state it returns *)
  Theorem repair_total_enc CH TG ks tagc (unauth : bool) (w : bytes) fuel out0 :
    0 < CH -> len w < 2 ^ 32 * CH -> (N.to_nat (len w) < fuel)%nat ->
    match fs_open CH TG ks (Cursor w) 0 with
    | (s, Ok _) => total (repair (FsEnc CH TG ks tagc unauth (Cursor w)) fuel s out0)
    | (_, Err e) => e <> EFuel
    | (_, Crash _) => False
    end.
  Proof.
    intros HC HM Hf.
    pose proof (fs_open_tame CH TG ks tagc (Cursor w) (fun _ => True) (fun s => s) (len w)
                  (cursor_tame_inner w) HC HM 0 Logic.I) as Ho.
    destruct (fs_open CH TG ks (Cursor w) 0) as [s [b|e|c]]; [|exact (proj2 Ho)|exact Ho].
    exact (repair_total FNMAX CACHE T_START T_CONTENT T_EOA T_EOF H _ _ _ _
             (fsenc_tame' CH TG ks tagc unauth w HC HM) HCACHE fuel s out0 Ho Hf).
  Qed.

  (* from ANY state of the decryptor's invariant (e.g. after earlier reads or errors) *)
  Theorem repair_total_enc_from CH TG ks tagc (unauth : bool) (w : bytes) fuel s out0 :
    0 < CH -> len w < 2 ^ 32 * CH -> (N.to_nat (len w) < fuel)%nat ->
    Ienc CH (Cursor w) (fun _ => True) (fun s => s) (len w) s ->
    total (repair (FsEnc CH TG ks tagc unauth (Cursor w)) fuel s out0).
  Proof.
    intros HC HM Hf Hs.
    exact (repair_total FNMAX CACHE T_START T_CONTENT T_EOA T_EOF H _ _ _ _
             (fsenc_tame' CH TG ks tagc unauth w HC HM) HCACHE fuel s out0 Hs Hf).
  Qed.
End Inst.

(* the very calls of the Tie-B entry points Run.repair_plain / Run.repair_enc (fuel
   |body| + 16, SHA-256, the tags of the source, either set of constants) *)
Theorem repair_plain_entry_total {LIM : Limit} (k : consts) (body : bytes) : 0 < cCACHE k ->
  total (repair (cFNMAX k) (cCACHE k) Src.BT_FileStart Src.BT_FileContent Src.BT_EndOfArchiveData
           Src.BT_EndOfFile Sha256.sha256 (Cursor body) (N.to_nat (len body) + 16) 0
           (w_init)).
Proof. intros HC. apply repair_total_plain; [exact HC|lia]. Qed.
