(* TotalComp.v — C08, part 8: the compression layer reader (CompLayer.v) over ANY inner bytes.
   Over a tame inner stream, for ANY SizesInfo (hostile compressed_sizes / last_block_size)
   and ANY decompressor function `dec` (it may return more or fewer bytes than the block
   size: the reader then delivers what there is, possibly a short/empty read, never more than
   the block's announced size):
   - Read::read never reaches a Crash site, its self-recursion is at most 3 deep (fuel 4 is
     never exhausted), it delivers at most what was asked and never beyond
     max_uncompressed_pos; after an error the state is Empty, which only yields errors;
   - Seek::seek(Start p) for any p, seek(Current d) when pos + d does not overflow an i64 and
     seek(End d) when d <> i64::MIN return a position or an error; the into_inner panic on
     Empty (site 186) is unreachable (D13 guard); the two API-only overflow sites 495 / 529
     are reached exactly by the excluded arguments (witnesses at the end);
   - new / initialize are total on arbitrary footers; a SizesInfo that parses takes at most
     LIMIT bytes and at most the bytes actually read (<= M);
   - what a decompressor is handed is at most min(csize, M) bytes.
   The reader is therefore "tame for reading" with position c_pos and bound
   max_uncompressed_pos: the block parser and repair above it are total (RdOnly). *)
From MLA Require Import Limit.
From MLA Require Import Base Stream CompLayer Total.
From Coq Require Import ZifyBool ZifyNat ZifyN.
Open Scope N_scope.

Lemma nthN_Some_lt {A} (l : list A) : forall n x, nthN l n = Some x -> n < len l.
Proof.
  induction l as [|a r IH]; intros n x Hn; cbn [nthN] in Hn; [discriminate|].
  rewrite len_cons. destruct (N.eqb_spec n 0) as [->|Hz]; [lia|].
  specialize (IH (n - 1) x Hn). lia.
Qed.

Lemma length_parse_u32s n : forall b, length (parse_u32s n b) = n.
Proof. induction n as [|n IH]; intros b; cbn [parse_u32s length]; [reflexivity|]. now rewrite IH. Qed.

(* ---------- clients that only read: any stream with a tame `rd` ---------- *)
Definition RdOnly (S : Stream) : Stream :=
  {| st := st S; rd := rd S; sk := fun s _ => (s, Err EInval) |}.

Definition TameRd (S : Stream) (I : st S -> Prop) (pos : st S -> N) (M : N) : Prop :=
  forall s n, I s ->
    match rd S s n with
    | (s', Ok d) => I s' /\ len d <= n /\ pos s' = pos s + len d /\ (len d <> 0 -> pos s' <= M)
    | (s', Err e) => I s' /\ e <> EFuel
    | (_, Crash _) => False
    end.

Lemma rdonly_tame S I pos M : TameRd S I pos M -> Tame (RdOnly S) I pos M.
Proof.
  intros Hrd. constructor.
  - exact Hrd.
  - intros s w Hs. cbn [RdOnly sk]. split; [exact Hs|discriminate].
Qed.

Section ReadExact.
  Context {LIM : Limit}.
  Variable S : Stream.
  Variable I : st S -> Prop.
  Variable pos : st S -> N.
  Variable M : N.
  Hypothesis HT : Tame S I pos M.

  Lemma read_exact_tame_gen fuel s n : I s -> (N.to_nat n < fuel)%nat ->
    match read_exact S fuel s n with
    | (s', Ok d) => I s' /\ len d = n /\ pos s' = pos s + n /\ (n <> 0 -> pos s' <= M)
    | (s', Err e) => I s' /\ e <> EFuel
    | (_, Crash _) => False
    end.
  Proof.
    intros Hs Hf. unfold read_exact.
    pose proof (read_full_tame_gen S I pos M HT fuel s n Hs Hf) as H.
    destruct (read_full S fuel s n) as [s' [d|e|c]]; try exact H.
    destruct H as (Hs' & H1 & H2 & H3).
    destruct (N.ltb_spec (len d) n) as [Hlt|Hge].
    - split; [exact Hs'|discriminate].
    - assert (len d = n) by lia. subst n. repeat split; auto.
  Qed.
End ReadExact.

#[local] Arguments set_state {S} _ _.

Section CompTotal.
  Variables BLOCK LIMIT : N.
  Local Hint Extern 0 Limit => exact LIMIT : typeclass_instances.
  Variable dec : bytes -> bytes.
  Variable S : Stream.
  Variable Iin : st S -> Prop.
  Variable pin : st S -> N.
  Variable M : N.
  Hypothesis HT : Tame S Iin pin M.
  Hypothesis HB : 0 < BLOCK.

  Notation si_max := (si_max BLOCK).
  Notation si_ubs := (si_ubs BLOCK).
  Notation pos_in_stream := (pos_in_stream BLOCK).
  Notation block_start_check := (block_start_check BLOCK).
  Notation sync_inner := (sync_inner BLOCK S).
  Notation new_decompressor_at := (new_decompressor_at BLOCK dec S).
  Notation ubs_at := (ubs_at BLOCK).
  Notation cread_aux := (cread_aux BLOCK dec S).
  Notation cread := (cread BLOCK dec S).
  Notation cseek_start_go := (cseek_start_go BLOCK dec S).
  Notation cseek_start := (cseek_start BLOCK dec S).
  Notation cseek := (cseek BLOCK dec S).

  (* ----- arithmetic of hostile SizesInfo ----- *)

  (* a block that has a compressed size lies inside [0, max_uncompressed_pos], and is not
     empty when it starts before the end *)
  Lemma block_bound si p c : p mod BLOCK = 0 -> nthN (si_sizes si) (p / BLOCK) = Some c ->
    p + si_ubs si (p / BLOCK) <= si_max si /\ (p < si_max si -> 0 < si_ubs si (p / BLOCK)).
  Proof.
    intros Hm Hn. apply nthN_Some_lt in Hn.
    assert (Hp : p = BLOCK * (p / BLOCK)) by (pose proof (N.div_mod p BLOCK); lia).
    unfold CompLayer.si_ubs, CompLayer.si_max.
    set (b := p / BLOCK) in *. set (L := len (si_sizes si)) in *.
    destruct (N.ltb_spec (b + 1) L) as [Hlt|Hge].
    - split; [|lia]. assert ((b + 1) * BLOCK <= (L - 1) * BLOCK) by (apply N.mul_le_mono_r; lia). lia.
    - assert (b = L - 1) by lia. subst b. split; lia.
  Qed.

  Lemma bsc_cases si p :
    match block_start_check (Some si) p with
    | Ok _ => p mod BLOCK = 0 /\ p < si_max si
    | Err e => e <> EFuel
    | Crash _ => False
    end.
  Proof.
    unfold CompLayer.block_start_check, CompLayer.pos_in_stream.
    destruct (N.eqb_spec (p mod BLOCK) 0); cbn [negb]; [|discriminate].
    destruct (N.ltb_spec p (si_max si)); cbn [negb]; [auto|discriminate].
  Qed.

  (* ----- the invariant: reader initialised with si; P0 = position given by new() ----- *)
  Definition cst_ok (cs : cstate S) : Prop :=
    match cs with CReady i => Iin i | CInData _ _ d => Iin (d_in d) | CEmpty => True end.
  (* an open decompressor's block ends at or before max_uncompressed_pos *)
  Definition pinv (si : sizes_info) (c : creader S) : Prop :=
    match c_state c with CInData r u _ => c_pos c + u <= si_max si + r | _ => True end.
  Definition Icomp (si : sizes_info) (P0 : N) (c : creader S) : Prop :=
    c_si c = Some si /\ cst_ok (c_state c) /\ pinv si c /\
    c_pos c <= N.max (si_max si + BLOCK) P0.

  Lemma Icomp_empty si P0 c : Icomp si P0 c -> Icomp si P0 (set_state c CEmpty).
  Proof.
    intros (H1 & H2 & H3 & H4). unfold Icomp, set_state, pinv. cbn [c_si c_state c_pos cst_ok]. auto.
  Qed.

  (* ----- the three steps Ready -> InData ----- *)
  Lemma sync_inner_tame si i p : Iin i ->
    match sync_inner (Some si) i p with
    | (i', Ok _) => Iin i'
    | (_, Err e) => e <> EFuel
    | (_, Crash _) => False
    end.
  Proof.
    intros Hi. unfold CompLayer.sync_inner.
    pose proof (bsc_cases si p) as Hb.
    destruct (block_start_check (Some si) p) as [x|e|x]; [|exact Hb|exact Hb].
    pose proof (tame_sk S Iin pin M HT i (FromStart (sum_firstN (si_sizes si) (p / BLOCK))) Hi) as Hs.
    destruct (sk S i (FromStart (sum_firstN (si_sizes si) (p / BLOCK)))) as [i' [q|e|x']];
      [exact (proj1 Hs)|exact (proj2 Hs)|exact Hs].
  Qed.

  (* new_decompressor_at: what the decompressor is handed is at most min(csize, M) bytes *)
  Lemma new_dec_tame si i p : Iin i ->
    match new_decompressor_at (Some si) i p with
    | Ok d => Iin (d_in d) /\ d_off d = 0 /\ p mod BLOCK = 0 /\ p < si_max si /\
              exists csize cb, nthN (si_sizes si) (p / BLOCK) = Some csize /\
                               d_plain d = dec cb /\ len cb <= csize /\ len cb <= M
    | Err e => e <> EFuel
    | Crash _ => False
    end.
  Proof.
    intros Hi. unfold CompLayer.new_decompressor_at, bind.
    pose proof (bsc_cases si p) as Hb.
    destruct (block_start_check (Some si) p) as [x|e|x]; [|exact Hb|exact Hb].
    unfold si_cbs. destruct (nthN (si_sizes si) (p / BLOCK)) as [csize|] eqn:En; [|discriminate].
    unfold dec_fuel.
    pose proof (read_full_tame S Iin pin M HT i csize Hi) as Hr.
    destruct (read_full S (Datatypes.S (N.to_nat csize)) i csize) as [i' [cb|e|x']]; [|exact (proj2 Hr)|exact Hr].
    destruct Hr as (Hi' & Hl & Hp & HM). cbn [d_in d_off d_plain].
    split; [exact Hi'|]. split; [reflexivity|]. split; [exact (proj1 Hb)|]. split; [exact (proj2 Hb)|].
    exists csize, cb. split; [reflexivity|]. split; [reflexivity|]. split; [exact Hl|].
    destruct (N.eq_dec (len cb) 0); [lia|]. specialize (HM ltac:(assumption)). lia.
  Qed.

  Lemma ubs_at_ok si p : p mod BLOCK = 0 -> p < si_max si ->
    ubs_at (Some si) p = Ok (si_ubs si (p / BLOCK)).
  Proof.
    intros Hm Hp. unfold CompLayer.ubs_at, CompLayer.block_start_check, CompLayer.pos_in_stream, bind.
    rewrite Hm. cbn [N.eqb negb].
    destruct (N.eqb_spec 0 0); [|congruence]. cbn [negb].
    destruct (N.ltb_spec p (si_max si)); [reflexivity|lia].
  Qed.

  (* ----- Read::read ----- *)
  Definition rd_post (si : sizes_info) (P0 : N) (c : creader S) (n : N) (out : creader S * res bytes) : Prop :=
    match out with
    | (c', Ok d) => Icomp si P0 c' /\ len d <= n /\ c_pos c' = c_pos c + len d /\
                    (len d <> 0 -> c_pos c' <= si_max si)
    | (c', Err e) => Icomp si P0 c' /\ e <> EFuel /\ c_pos c' = c_pos c
    | (_, Crash _) => False
    end.

  Lemma rd_post_eof si P0 c n : Icomp si P0 c -> rd_post si P0 c n (c, Ok []).
  Proof. intros Hc. unfold rd_post. rewrite len_nil. split; [exact Hc|]. repeat split; lia. Qed.

  Lemma rd_post_err si P0 c n e : Icomp si P0 c -> e <> EFuel -> rd_post si P0 c n (set_state c CEmpty, Err e).
  Proof. intros Hc He. unfold rd_post. split; [apply Icomp_empty; exact Hc|]. split; [exact He|reflexivity]. Qed.

  (* an open decompressor with bytes left in its block: one call *)
  Lemma cread_live si P0 c n r u d fuel : Icomp si P0 c -> c_state c = CInData r u d -> r < u ->
    rd_post si P0 c n (cread_aux (Datatypes.S fuel) c n).
  Proof.
    intros Hc Hst Hru. pose proof Hc as (Hsi & Hok & Hpi & Hpb).
    cbn [CompLayer.cread_aux]. rewrite Hsi. unfold CompLayer.pos_in_stream.
    destruct (N.ltb_spec (c_pos c) (si_max si)) as [Hin|Hout]; cbn [negb]; [|apply rd_post_eof; exact Hc].
    rewrite Hst. destruct (N.ltb_spec u r); [lia|]. destruct (N.eqb_spec r u); [lia|].
    unfold dec_read. cbv zeta. unfold rd_post.
    set (data := sliceN (d_off d) (N.min (u - r) n) (d_plain d)).
    assert (Hd : len data <= N.min (u - r) n) by (unfold data; rewrite len_sliceN; lia).
    unfold pinv in Hpi. rewrite Hst in Hpi, Hok. cbn [cst_ok] in Hok.
    unfold Icomp, pinv. cbn [c_si c_state c_pos cst_ok d_in].
    repeat split; try assumption; try lia.
  Qed.

  (* Ready: sync, new decompressor, then one call *)
  Lemma cread_ready si P0 c n i fuel : Icomp si P0 c -> c_state c = CReady i ->
    rd_post si P0 c n (cread_aux (Datatypes.S (Datatypes.S fuel)) c n).
  Proof.
    intros Hc Hst. pose proof Hc as (Hsi & Hok & Hpi & Hpb).
    cbn [CompLayer.cread_aux]. rewrite Hsi. unfold CompLayer.pos_in_stream at 1.
    destruct (N.ltb_spec (c_pos c) (si_max si)) as [Hin|Hout]; cbn [negb]; [|apply rd_post_eof; exact Hc].
    rewrite Hst. rewrite Hst in Hok. cbn [cst_ok] in Hok.
    pose proof (sync_inner_tame si i (c_pos c) Hok) as Hs.
    destruct (sync_inner (Some si) i (c_pos c)) as [i1 [x1|e|x1]];
      [|apply rd_post_err; assumption|contradiction].
    pose proof (new_dec_tame si i1 (c_pos c) Hs) as Hn.
    destruct (new_decompressor_at (Some si) i1 (c_pos c)) as [d|e|x2];
      [|apply rd_post_err; assumption|contradiction].
    destruct Hn as (Hid & Hoff & Hm & Hp & csize & cb & Hnth & _).
    rewrite (ubs_at_ok si (c_pos c) Hm Hp).
    destruct (block_bound si (c_pos c) csize Hm Hnth) as [Hbb Hpos]. specialize (Hpos Hp).
    set (u := si_ubs si (c_pos c / BLOCK)) in *.
    assert (Hc1 : Icomp si P0 (set_state c (CInData 0 u d))).
    { unfold Icomp, set_state, pinv. cbn [c_si c_state c_pos cst_ok]. repeat split; try assumption. lia. }
    pose proof (cread_live si P0 (set_state c (CInData 0 u d)) n 0 u d fuel Hc1 eq_refl Hpos) as Hl.
    unfold rd_post in Hl |- *. cbn [set_state c_pos] in Hl.
    fold (CompLayer.pos_in_stream BLOCK) in Hl |- *. exact Hl.
  Qed.

  (* any state: at most three nested calls *)
  Theorem cread_tame si P0 c n fuel : Icomp si P0 c ->
    rd_post si P0 c n (cread_aux (Datatypes.S (Datatypes.S (Datatypes.S fuel))) c n).
  Proof.
    intros Hc. destruct (c_state c) as [i|r u d|] eqn:Hst.
    - eapply cread_ready; eauto.
    - destruct (N.lt_ge_cases r u) as [Hlt|Hge]; [eapply cread_live; eauto|].
      pose proof Hc as (Hsi & Hok & Hpi & Hpb).
      cbn [CompLayer.cread_aux]. rewrite Hsi. unfold CompLayer.pos_in_stream at 1.
      destruct (N.ltb_spec (c_pos c) (si_max si)) as [Hin|Hout]; cbn [negb]; [|apply rd_post_eof; exact Hc].
      rewrite Hst. destruct (N.ltb_spec u r) as [Hur|Hur]; [apply rd_post_err; [exact Hc|discriminate]|].
      destruct (N.eqb_spec r u) as [Heq|Hne]; [|lia].
      rewrite Hst in Hok. cbn [cst_ok] in Hok.
      assert (Hc1 : Icomp si P0 (set_state c (CReady (d_in d)))).
      { unfold Icomp, set_state, pinv. cbn [c_si c_state c_pos cst_ok]. repeat split; assumption. }
      pose proof (cread_ready si P0 (set_state c (CReady (d_in d))) n (d_in d) fuel Hc1 eq_refl) as Hl.
      unfold rd_post in Hl |- *. cbn [set_state c_pos] in Hl. exact Hl.
    - pose proof Hc as (Hsi & Hok & Hpi & Hpb).
      cbn [CompLayer.cread_aux]. rewrite Hsi. unfold CompLayer.pos_in_stream at 1.
      destruct (N.ltb_spec (c_pos c) (si_max si)) as [Hin|Hout]; cbn [negb]; [|apply rd_post_eof; exact Hc].
      rewrite Hst. apply rd_post_err; [exact Hc|discriminate].
  Qed.

  (* Read::read as the layer runs it: fuel 4 *)
  Corollary cread_total si P0 c n : Icomp si P0 c -> rd_post si P0 c n (cread c n).
  Proof. intros Hc. unfold CompLayer.cread. apply (cread_tame si P0 c n 1 Hc). Qed.

  (* the Empty state only yields errors (or the end-of-stream Ok(0)) and stays Empty *)
  Lemma cread_empty si P0 c n : Icomp si P0 c -> c_state c = CEmpty ->
    cread c n = (c, Ok []) \/ cread c n = (set_state c CEmpty, Err EState).
  Proof.
    intros (Hsi & _) Hst. unfold CompLayer.cread. cbn [CompLayer.cread_aux].
    destruct (negb _); [left; reflexivity|]. rewrite Hst. right; reflexivity.
  Qed.

  (* ----- Seek::seek ----- *)
  Definition sk_post (si : sizes_info) (P0 : N) (out : creader S * res N) : Prop :=
    match out with
    | (c', Ok q) => Icomp si P0 c' /\ c_pos c' = q
    | (c', Err e) => Icomp si P0 c' /\ e <> EFuel
    | (_, Crash _) => False
    end.

  Lemma sk_post_err si P0 c e : Icomp si P0 c -> e <> EFuel -> sk_post si P0 (set_state c CEmpty, Err e).
  Proof. intros Hc He. split; [apply Icomp_empty; exact Hc|exact He]. Qed.

  Lemma cseek_start_go_tame si P0 c p i : Icomp si P0 c -> into_inner S (c_state c) = Ok i ->
    match cseek_start_go c si p with
    | (c', Ok q) => Icomp si P0 c' /\ c_pos c' = p /\ q = p
    | (c', Err e) => Icomp si P0 c' /\ e <> EFuel
    | (_, Crash _) => False
    end.
  Proof.
    intros Hc Hin. pose proof Hc as (Hsi & Hok & Hpi & Hpb).
    assert (Hi : Iin i).
    { destruct (c_state c) as [i'|r u d|]; cbn [into_inner cst_ok] in *; [| |discriminate];
        injection Hin as <-; exact Hok. }
    unfold CompLayer.cseek_start_go. rewrite Hin, Hsi. unfold CompLayer.pos_in_stream.
    assert (Hmod : p mod BLOCK < BLOCK) by (apply N.mod_lt; lia).
    assert (Hle : p mod BLOCK <= p) by (apply N.mod_le; lia).
    set (inside := p mod BLOCK) in *. set (rounded := p - inside) in *.
    destruct (N.ltb_spec rounded (si_max si)) as [Hr|Hr]; cbn [negb].
    - pose proof (sync_inner_tame si i rounded Hi) as Hs.
      destruct (sync_inner (Some si) i rounded) as [i1 [x1|e|x1]];
        [|apply (sk_post_err si P0 c e); assumption|contradiction].
      pose proof (new_dec_tame si i1 rounded Hs) as Hn.
      destruct (new_decompressor_at (Some si) i1 rounded) as [d|e|x2];
        [|apply (sk_post_err si P0 c e); assumption|contradiction].
      destruct Hn as (Hid & Hoff & Hm & Hp & csize & cb & Hnth & _).
      rewrite (ubs_at_ok si rounded Hm Hp).
      destruct (block_bound si rounded csize Hm Hnth) as [Hbb _].
      unfold dec_read. cbv zeta.
      destruct (N.leb_spec (2 ^ 32) inside); [apply (sk_post_err si P0 c EInval); [exact Hc|discriminate]|].
      unfold Icomp, pinv. cbn [c_si c_state c_pos cst_ok d_in].
      repeat split; try assumption; lia.
    - destruct (N.eqb_spec p (si_max si)) as [Hp|Hp]; cbn [negb].
      + unfold Icomp, pinv. cbn [c_si c_state c_pos cst_ok]. repeat split; try assumption; lia.
      + split; [exact Hc|discriminate].
  Qed.

  (* seek(SeekFrom::Start(p)) for ANY p, from any state (Empty: WrongReaderState) *)
  Lemma cseek_start_tame si P0 c p : Icomp si P0 c ->
    match cseek_start c p with
    | (c', Ok q) => Icomp si P0 c' /\ c_pos c' = p /\ q = p
    | (c', Err e) => Icomp si P0 c' /\ e <> EFuel
    | (_, Crash _) => False
    end.
  Proof.
    intros Hc. pose proof Hc as (Hsi & _). unfold CompLayer.cseek_start. rewrite Hsi.
    destruct (c_state c) as [i|r u d|] eqn:Hst.
    - apply (cseek_start_go_tame si P0 c p i Hc). rewrite Hst. reflexivity.
    - apply (cseek_start_go_tame si P0 c p (d_in d) Hc). rewrite Hst. reflexivity.
    - split; [exact Hc|discriminate].
  Qed.

  (* the caller's arguments for which the i64 arithmetic of Seek::seek does not overflow *)
  Definition seek_arg_ok (c : creader S) (w : whence) : Prop :=
    match w with
    | FromStart _ => True
    | FromCur d => (d + Z.of_N (c_pos c) < 2 ^ 63)%Z
    | FromEnd d => d <> (- 2 ^ 63)%Z
    end.

  Theorem cseek_total si P0 c w : Icomp si P0 c -> seek_arg_ok c w ->
    match cseek c w with
    | (c', Ok q) => Icomp si P0 c' /\ c_pos c' = q /\ (forall p, w = FromStart p -> q = p)
    | (c', Err e) => Icomp si P0 c' /\ e <> EFuel
    | (_, Crash _) => False
    end.
  Proof.
    intros Hc Harg. pose proof Hc as (Hsi & _). unfold CompLayer.cseek. rewrite Hsi.
    destruct w as [p|d|d]; cbn [seek_arg_ok] in Harg.
    - pose proof (cseek_start_tame si P0 c p Hc) as Hs.
      destruct (cseek_start c p) as [c' [q|e|x]]; [|exact Hs|exact Hs].
      destruct Hs as (H1 & H2 & H3). split; [exact H1|]. split; [congruence|].
      intros p' E. injection E as <-. exact H3.
    - destruct (d =? 0)%Z; [split; [exact Hc|]; split; [reflexivity|intros; discriminate]|].
      destruct (c_pos c <? 2 ^ 63); [|split; [exact Hc|discriminate]].
      destruct (Z.leb_spec (2 ^ 63) (d + Z.of_N (c_pos c))) as [Hov|_]; [lia|].
      destruct (0 <=? d + Z.of_N (c_pos c))%Z; [|split; [exact Hc|discriminate]].
      pose proof (cseek_start_tame si P0 c (Z.to_N (d + Z.of_N (c_pos c))) Hc) as Hs.
      destruct (cseek_start c (Z.to_N (d + Z.of_N (c_pos c)))) as [c' [q|e|x]]; [|exact Hs|exact Hs].
      destruct Hs as (H1 & H2 & H3). split; [exact H1|]. split; [congruence|intros; discriminate].
    - destruct (0 <? d)%Z; [split; [exact Hc|discriminate]|].
      destruct (Z.eqb_spec d (- 2 ^ 63)) as [E|_]; [contradiction|].
      unfold end_target. destruct (Z.to_N (- d) <=? si_max si); [|split; [exact Hc|discriminate]].
      pose proof (cseek_start_tame si P0 c (si_max si - Z.to_N (- d)) Hc) as Hs.
      destruct (cseek_start c (si_max si - Z.to_N (- d))) as [c' [q|e|x]]; [|exact Hs|exact Hs].
      destruct Hs as (H1 & H2 & H3). split; [exact H1|]. split; [congruence|intros; discriminate].
  Qed.

  (* in the terms of the property: |d| < 2^62 is enough as long as the stream (and the
     position new() started from) stays below 2^62 *)
  Corollary cseek_total_small si P0 c w : Icomp si P0 c ->
    si_max si + BLOCK <= 2 ^ 62 -> P0 <= 2 ^ 62 ->
    match w with FromStart _ => True | FromCur d | FromEnd d => (- 2 ^ 62 < d < 2 ^ 62)%Z end ->
    match cseek c w with
    | (c', Ok q) => Icomp si P0 c' /\ c_pos c' = q /\ (forall p, w = FromStart p -> q = p)
    | (c', Err e) => Icomp si P0 c' /\ e <> EFuel
    | (_, Crash _) => False
    end.
  Proof.
    intros Hc Hmax HP0 Hw. apply cseek_total; [exact Hc|].
    destruct Hc as (_ & _ & _ & Hpb). destruct w as [p|d|d]; cbn [seek_arg_ok]; [exact Logic.I| |];
      change (2 ^ 62)%Z with 4611686018427387904%Z in *; change (2 ^ 63)%Z with 9223372036854775808%Z;
      change (2 ^ 62) with 4611686018427387904 in *; lia.
  Qed.

  (* the reading half of Tame, with position c_pos and bound max_uncompressed_pos *)
  Theorem comp_reader_tame_rd si P0 :
    TameRd (CompReader BLOCK dec S) (Icomp si P0) (@c_pos S) (si_max si).
  Proof.
    intros c n Hc. cbn [CompReader rd st].
    pose proof (cread_total si P0 c n Hc) as H. unfold rd_post in H.
    destruct (cread c n) as [c' [d|e|x]]; [exact H| |exact H].
    destruct H as (H1 & H2 & _). split; assumption.
  Qed.

  Corollary comp_rdonly_tame si P0 :
    Tame (RdOnly (CompReader BLOCK dec S)) (Icomp si P0) (@c_pos S) (si_max si).
  Proof. apply rdonly_tame, comp_reader_tame_rd. Qed.

  (* ----- new / initialize on arbitrary footers ----- *)
  Variable inner_init : st S -> st S * res unit.
  Hypothesis Hinit : forall i, Iin i ->
    match inner_init i with
    | (i', Ok _) => Iin i'
    | (i', Err e) => Iin i' /\ e <> EFuel
    | (_, Crash _) => False
    end.

  (* SizesInfo parsing: total; what it allocates (4 bytes per size) is below LIMIT and below
     the bytes actually read *)
  Lemma read_sizes_info_tame i : Iin i ->
    match read_sizes_info LIMIT S inner_init i with
    | (i', Ok si) => Iin i' /\ 4 * len (si_sizes si) + 12 <= LIMIT /\ 4 * len (si_sizes si) + 12 <= M
    | (i', Err e) => Iin i' /\ e <> EFuel
    | (_, Crash _) => False
    end.
  Proof.
    intros Hi. unfold read_sizes_info, sbind.
    pose proof (Hinit i Hi) as H0.
    destruct (inner_init i) as [i0 [x0|e|x]]; [|exact H0|exact H0].
    pose proof (tame_sk S Iin pin M HT i0 (FromEnd (-4)) H0) as H1.
    destruct (sk S i0 (FromEnd (-4))) as [i1 [p|e|x]]; [|exact H1|exact H1].
    destruct H1 as [H1 _].
    pose proof (read_exact_tame_gen S Iin pin M HT 5 i1 4 H1 ltac:(lia)) as H2.
    destruct (read_exact S 5 i1 4) as [i2 [lb|e|x]]; [|exact H2|exact H2].
    destruct H2 as (H2 & _).
    destruct (p <? le_val lb); [split; [exact H2|discriminate]|].
    pose proof (tame_sk S Iin pin M HT i2 (FromStart (p - le_val lb)) H2) as H3.
    destruct (sk S i2 (FromStart (p - le_val lb))) as [i3 [q|e|x]]; [|exact H3|exact H3].
    destruct H3 as [H3 _].
    destruct (le_val lb <? 8); [split; [exact H3|discriminate]|].
    pose proof (read_exact_tame_gen S Iin pin M HT 9 i3 8 H3 ltac:(lia)) as H4.
    unfold as_deser.
    destruct (read_exact S 9 i3 8) as [i4 [nb|e|x]]; [|split; [exact (proj1 H4)|discriminate]|exact H4].
    destruct H4 as (H4 & _ & Hp4 & HM4). specialize (HM4 ltac:(lia)).
    set (n := le_val nb) in *.
    destruct (N.ltb_spec LIMIT (8 + (4 * n + 4))) as [?|Hlim]; cbn [orb]; [split; [exact H4|discriminate]|].
    destruct (le_val lb - 8 <? 4 * n + 4); [split; [exact H4|discriminate]|].
    pose proof (read_exact_tame_gen S Iin pin M HT (Datatypes.S (N.to_nat (4 * n + 4))) i4 (4 * n + 4) H4 ltac:(lia)) as H5.
    destruct (read_exact S (Datatypes.S (N.to_nat (4 * n + 4))) i4 (4 * n + 4)) as [i5 [body|e|x]];
      [|split; [exact (proj1 H5)|discriminate]|exact H5].
    destruct H5 as (H5 & _ & Hp5 & HM5). specialize (HM5 ltac:(lia)).
    cbn [si_sizes]. unfold len at 1 2. rewrite length_parse_u32s, N2Nat.id.
    split; [exact H5|]. split; lia.
  Qed.

  (* LayerReader::initialize from any state *)
  Lemma comp_initialize_tame c : cst_ok (c_state c) ->
    match comp_initialize LIMIT S inner_init c with
    | (c', Ok _) => exists si, Icomp si (c_pos c) c' /\ c_pos c' = c_pos c /\
                               4 * len (si_sizes si) + 12 <= LIMIT /\ 4 * len (si_sizes si) + 12 <= M
    | (c', Err e) => cst_ok (c_state c') /\ c_si c' = c_si c /\ c_pos c' = c_pos c /\ e <> EFuel
    | (_, Crash _) => False
    end.
  Proof.
    intros Hok. unfold comp_initialize.
    destruct (c_state c) as [i|r u d|] eqn:Hst.
    - cbn [cst_ok] in Hok. pose proof (read_sizes_info_tame i Hok) as Hr.
      destruct (read_sizes_info LIMIT S inner_init i) as [i' [si|e|x]]; [| |exact Hr].
      + destruct Hr as (Hi' & Hl1 & Hl2). exists si. cbn [c_pos]. split; [|auto].
        unfold Icomp, pinv. cbn [c_si c_state c_pos cst_ok]. repeat split; try assumption; lia.
      + destruct Hr as [Hi' He]. cbn [c_state c_si c_pos cst_ok]. auto.
    - rewrite Hst. repeat split; try assumption; discriminate.
    - rewrite Hst. repeat split; try assumption; discriminate.
  Qed.

  (* CompressionLayerReader::new, then initialize (from_config) *)
  Theorem comp_open_tame i0 : Iin i0 ->
    match comp_open LIMIT S inner_init i0 with
    | (c', Ok _) => exists si, Icomp si (c_pos c') c' /\
                               4 * len (si_sizes si) + 12 <= LIMIT /\ 4 * len (si_sizes si) + 12 <= M
    | (c', Err e) => cst_ok (c_state c') /\ c_si c' = None /\ e <> EFuel
    | (_, Crash _) => False
    end.
  Proof.
    intros Hi. unfold comp_open, comp_new.
    pose proof (tame_sk S Iin pin M HT i0 (FromCur 0) Hi) as Hs.
    destruct (sk S i0 (FromCur 0)) as [i' [p|e|x]]; [| |exact Hs].
    - pose proof (comp_initialize_tame (mkC (CReady i') None p) (proj1 Hs)) as Hc.
      destruct (comp_initialize LIMIT S inner_init (mkC (CReady i') None p)) as [c' [u|e|x]]; [| |exact Hc].
      + destruct Hc as (si & Hc & Hp & Hl). cbn [c_pos] in Hp, Hc. rewrite Hp. exists si. auto.
      + destruct Hc as (H1 & H2 & _ & H4). auto.
    - cbn [c_state c_si cst_ok]. split; [exact Logic.I|]. split; [reflexivity|exact (proj2 Hs)].
  Qed.

  (* before initialize (no SizesInfo; new() leaves Ready or Empty): read returns an error and
     poisons the state, seek returns MissingMetadata *)
  Lemma cread_uninit c n : c_si c = None -> (forall r u d, c_state c <> CInData r u d) ->
    exists e, cread c n = (set_state c CEmpty, Err e) /\ e <> EFuel.
  Proof.
    intros Hsi Hst. unfold CompLayer.cread. cbn [CompLayer.cread_aux]. rewrite Hsi.
    cbn [CompLayer.pos_in_stream negb].
    destruct (c_state c) as [i|r u d|].
    - unfold CompLayer.sync_inner, CompLayer.block_start_check. cbn [CompLayer.pos_in_stream negb].
      destruct (negb (c_pos c mod BLOCK =? 0)); eexists; (split; [reflexivity|discriminate]).
    - exfalso. exact (Hst r u d eq_refl).
    - eexists; (split; [reflexivity|discriminate]).
  Qed.
  Lemma cseek_uninit c w : c_si c = None -> cseek c w = (c, Err EMissingMeta).
  Proof. intros Hsi. unfold CompLayer.cseek. rewrite Hsi. reflexivity. Qed.
End CompTotal.
