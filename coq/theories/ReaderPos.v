(* ReaderPos.v — work package cli17: RoundTripReader's invariant RI with ONE addition: the finished
   reader still stands somewhere in the stream (RI_finish carries a position).  mlar's commands go on
   using the archive reader after a file was copied out (the ArchiveFile borrows the reader's source),
   so the next get_file starts from the state the copy left.  The lemmas and proofs are those of
   RoundTripReader.v, carried over mechanically; only the two places that build RI_finish changed.
   Original header follows.
   RoundTripReader.v — C01, BlocksToFileReader::read over a well-formed block list.
   The reader does not walk over foreign blocks: on a block of another file it jumps to the
   NEXT recorded offset.  That is right exactly because the offsets are the starts of the
   MAXIMAL runs of the file's blocks (run_offs): invariant RI below. *)
From MLA Require Import Limit.
From MLA Require Import Base Stream Blocks Reader RoundTripBlocks RoundTripFooter RoundTripReader.
From Coq Require Import ZifyBool ZifyNat ZifyN.
Open Scope N_scope.

Section RTReaderPos.
  Context {LIM : Limit}.
  Variable FNMAX : N.
  Variables T_START T_CONTENT T_EOA T_EOF : N.
  Hypothesis Htags : tags_distinct T_START T_CONTENT T_EOA T_EOF.
  Variable S : Stream.

  Notation ser_block := (ser_block T_START T_CONTENT T_EOA T_EOF).
  Notation ser_blocks := (ser_blocks T_START T_CONTENT T_EOA T_EOF).
  Notation wfb := (wfb FNMAX).
  Notation run_offs := (run_offs T_START T_CONTENT T_EOA T_EOF).
  Notation parse_block := (parse_block FNMAX T_START T_CONTENT T_EOA T_EOF S).
  Notation bread := (bread FNMAX T_START T_CONTENT T_EOA T_EOF S).
  Notation bread_ready := (bread_ready FNMAX T_START T_CONTENT T_EOA T_EOF S).
  Notation bread_data := (bread_data S).
  Notation next_block := (next_block FNMAX T_START T_CONTENT T_EOA T_EOF S).

  Notation read_all := (RoundTripReader.read_all FNMAX T_START T_CONTENT T_EOA T_EOF S).

  Variable bl : list block.
  Variable post : bytes.
  Variable R : st S -> N -> Prop.
  Hypothesis HR : Refines S (ser_blocks bl ++ post) R.
  Hypothesis Hwf : Forall wfb bl.
  Hypothesis Hnoend : ~ In BEnd bl.
  Variable id : N.
  Notation offs := (run_offs id None 0 bl).

  Lemma parse_at s done x rest : bl = done ++ x :: rest -> R s (len (ser_blocks done)) ->
    exists s', parse_block s = (s', Ok (pb_of x)) /\ R s' (len (ser_blocks done) + hdr_len x).
  Proof.
    intros Hbl HRs.
    apply (parse_ser_block FNMAX _ _ _ _ Htags S _ R HR s (ser_blocks done) x (ser_blocks rest ++ post)).
    - rewrite Hbl, ser_blocks_app, ser_blocks_cons, <- !app_assoc. reflexivity.
    - rewrite Forall_forall in Hwf. apply Hwf. rewrite Hbl. apply in_or_app. right. left. reflexivity.
    - exact HRs.
  Qed.

  (* no block of a well-formed list is an empty FileContent: the reader's stepping over
     empty blocks (next_block) never happens, whatever its fuel, even none *)
  Lemma next_at zf j s done x rest : bl = done ++ x :: rest -> R s (len (ser_blocks done)) ->
    exists s', next_block zf j s = (s', Ok (pb_of x)) /\ R s' (len (ser_blocks done) + hdr_len x).
  Proof.
    intros Hbl HRs. destruct (parse_at s done x rest Hbl HRs) as (s' & Hp & HR').
    exists s'. split; [|exact HR'].
    assert (Hw : wfb x).
    { rewrite Forall_forall in Hwf. apply Hwf. rewrite Hbl. apply in_or_app. right. left. reflexivity. }
    destruct zf; cbn [Reader.next_block]; rewrite Hp; destruct x as [i nm|i d|i h|]; cbn [pb_of]; try reflexivity.
    all: destruct Hw as (_ & Hd & _); destruct (N.eqb_spec (len d) 0) as [E|_]; [lia|];
      rewrite andb_false_r; reflexivity.
  Qed.

  Lemma pos_in_range done rest : bl = done ++ rest -> len (ser_blocks done) <= len (ser_blocks bl ++ post).
  Proof. intros ->. rewrite ser_blocks_app, !len_app. lia. Qed.

  (* the reader's invariant; todo = the bytes still to deliver *)
  Inductive RI (bs : bstate S) (todo : bytes) : Prop :=
  | RI_ready done rest ds h
      (Hbl : bl = done ++ rest)
      (Hmode : b_mode bs = BReady)
      (Hpos : R (b_src bs) (len (ser_blocks done)))
      (Hid : b_id bs = id) (Hoffs : b_offs bs = offs)
      (Hcur : Datatypes.S (b_cur bs) = length (run_offs id None 0 done))
      (Hlast : is_id (last_id None done) id = true)
      (Hproj : proj id rest = map (BContent id) ds ++ [BEof id h])
      (Htodo : todo = concat ds)
  | RI_infile done d rem rest ds h
      (Hbl : bl = done ++ BContent id d :: rest)
      (Hmode : b_mode bs = BInFile rem)
      (Hrem : 0 < rem /\ rem <= len d)
      (Hpos : R (b_src bs) (len (ser_blocks done) + 17 + (len d - rem)))
      (Hid : b_id bs = id) (Hoffs : b_offs bs = offs)
      (Hcur : Datatypes.S (b_cur bs) = length (run_offs id None 0 (done ++ [BContent id d])))
      (Hproj : proj id rest = map (BContent id) ds ++ [BEof id h])
      (Htodo : todo = dropN (len d - rem) d ++ concat ds)
  | RI_finish (Hmode : b_mode bs = BFinish) (Htodo : todo = []) (Hposf : exists p, R (b_src bs) p).

  Lemma is_id_refl i : is_id (Some i) i = true.
  Proof. cbn [is_id]. apply N.eqb_refl. Qed.

  Lemma bread_data_spec bs0 s done d rest ds h rem n :
    bl = done ++ BContent id d :: rest -> 0 < rem -> rem <= len d -> 0 < n ->
    R s (len (ser_blocks done) + 17 + (len d - rem)) ->
    b_id bs0 = id -> b_offs bs0 = offs ->
    Datatypes.S (b_cur bs0) = length (run_offs id None 0 (done ++ [BContent id d])) ->
    proj id rest = map (BContent id) ds ++ [BEof id h] ->
    exists bs' dd todo', bread_data bs0 s rem n = (bs', Ok dd) /\ 0 < len dd /\ len dd <= n /\
      dropN (len d - rem) d ++ concat ds = dd ++ todo' /\ RI bs' todo'.
  Proof.
    intros Hbl Hrem0 Hrem Hn HRs Hid Hoffs Hcur Hproj.
    set (j := len d - rem) in *.
    assert (Hwd : wfb (BContent id d)).
    { rewrite Forall_forall in Hwf. apply Hwf. rewrite Hbl. apply in_or_app. right. left. reflexivity. }
    destruct Hwd as (Hidb & Hdpos & Hdlen).
    set (pre := ser_blocks done ++ [T_CONTENT] ++ le64 id ++ le64 (len d) ++ takeN j d).
    assert (Hlpre : len pre = len (ser_blocks done) + 17 + j).
    { unfold pre. rewrite !len_app, !len_le64, len_takeN, len_cons, len_nil. lia. }
    assert (Hb : ser_blocks bl ++ post = pre ++ dropN j d ++ (ser_blocks rest ++ post)).
    { rewrite Hbl, ser_blocks_app, ser_blocks_cons. unfold pre. cbn [Blocks.ser_block].
      rewrite <- (takeN_dropN j d) at 2. rewrite <- !app_assoc. reflexivity. }
    assert (Hlx : len (dropN j d) = rem) by (rewrite len_dropN; lia).
    rewrite <- Hlpre in HRs.
    destruct (rd_mid S _ R HR s pre (dropN j d) _ n Hb HRs Hn) as (s' & k & Hrd & Hk0 & Hkn & Hkx & HR'); [lia|].
    rewrite Hlx in Hrd, Hkx. unfold Reader.bread_data. rewrite Hrd.
    assert (Hlt : len (takeN k (dropN j d)) = k) by (rewrite len_takeN; lia).
    rewrite Hlt. destruct (N.ltb_spec rem k); [lia|].
    eexists _, (takeN k (dropN j d)), (dropN k (dropN j d) ++ concat ds).
    split; [reflexivity|]. split; [lia|]. split; [lia|].
    split; [rewrite app_assoc, takeN_dropN; reflexivity|].
    destruct (N.ltb_spec 0 (rem - k)) as [Hgt|Hle].
    - eapply (RI_infile _ _ done d (rem - k) rest ds h); cbn [bset b_mode b_src b_id b_offs b_cur]; auto.
      + lia.
      + replace (len (ser_blocks done) + 17 + (len d - (rem - k))) with (len pre + k) by lia. exact HR'.
      + rewrite dropN_dropN. do 2 f_equal. lia.
    - assert (k = rem) by lia. subst k.
      eapply (RI_ready _ _ (done ++ [BContent id d]) rest ds h); cbn [bset b_mode b_src b_id b_offs b_cur]; auto.
      + rewrite Hbl, <- app_assoc. reflexivity.
      + rewrite ser_blocks_app, ser_blocks_cons, ser_blocks_nil, app_nil_r, len_app.
        cbn [Blocks.ser_block]. rewrite !len_app, !len_le64, len_cons, len_nil.
        replace (len (ser_blocks done) + (0 + 1 + (8 + (8 + len d)))) with (len pre + rem) by lia. exact HR'.
      + rewrite last_id_app. apply is_id_refl.
      + rewrite (dropN_all rem) by lia. reflexivity.
  Qed.

  (* the stream stands on a block of the file: FileContent or EndOfFile *)
  Lemma bread_ready_hit fuel zf bs done x rest xs ds h n :
    bl = done ++ x :: rest -> 0 < n ->
    R (b_src bs) (len (ser_blocks done)) ->
    b_id bs = id -> b_offs bs = offs ->
    Datatypes.S (b_cur bs) = length (run_offs id None 0 (done ++ [x])) ->
    x :: xs = map (BContent id) ds ++ [BEof id h] -> proj id rest = xs ->
    exists bs' dd todo', bread_ready fuel zf bs n = (bs', Ok dd) /\ len dd <= n /\
      concat ds = dd ++ todo' /\ RI bs' todo' /\ (dd = [] -> concat ds = [] /\ b_mode bs' = BFinish).
  Proof.
    intros Hbl Hn HRs Hid Hoffs Hcur Hx Hproj.
    destruct (next_at zf (b_id bs) _ done x rest Hbl HRs) as (s1 & Hp & HR1).
    destruct ds as [|d0 ds]; cbn [map app] in Hx; injection Hx as -> ->.
    - (* EndOfFile *)
      exists (bset S bs s1 BFinish), [], [].
      split; [|split; [unfold len; cbn [length]; lia | split; [reflexivity | split; [apply RI_finish; [reflexivity | reflexivity | eexists; exact HR1] | split; reflexivity]]]].
      destruct fuel; cbn [Reader.bread_ready]; rewrite Hp; cbn [pb_of]; cbv beta iota zeta;
        rewrite Hid, N.eqb_refl; reflexivity.
    - (* FileContent *)
      cbn [hdr_len] in HR1.
      destruct (bread_data_spec (bset S bs s1 BReady) s1 done d0 rest ds h (len d0) n Hbl) as (bs' & dd & todo' & Hbd & Hdd0 & Hddn & Htd & HRI);
        cbn [bset b_id b_offs b_cur]; auto; try lia.
      + assert (Hwd : wfb (BContent id d0)).
        { rewrite Forall_forall in Hwf. apply Hwf. rewrite Hbl. apply in_or_app. right. left. reflexivity. }
        destruct Hwd as (_ & Hd & _). exact Hd.
      + replace (len (ser_blocks done) + 17 + (len d0 - len d0)) with (len (ser_blocks done) + 17) by lia. exact HR1.
      + exists bs', dd, todo'.
        split; [|split; [exact Hddn | split; [| split; [exact HRI|]]]].
        * destruct fuel; cbn [Reader.bread_ready]; rewrite Hp; cbn [pb_of]; cbv beta iota zeta;
            rewrite Hid, N.eqb_refl; exact Hbd.
        * rewrite N.sub_diag, dropN_0 in Htd. exact Htd.
        * intros ->. unfold len in Hdd0; cbn [length] in Hdd0; lia.
  Qed.

  Lemma nth_error_mid {A} (l1 : list A) x l2 : nth_error (l1 ++ x :: l2) (length l1) = Some x.
  Proof. rewrite nth_error_app2 by lia. rewrite Nat.sub_diag. reflexivity. Qed.

  (* Ready: at most one jump *)
  Lemma bread_ready_spec fuel zf bs done rest ds h n :
    bl = done ++ rest -> 0 < n ->
    R (b_src bs) (len (ser_blocks done)) ->
    b_id bs = id -> b_offs bs = offs ->
    Datatypes.S (b_cur bs) = length (run_offs id None 0 done) ->
    is_id (last_id None done) id = true ->
    proj id rest = map (BContent id) ds ++ [BEof id h] ->
    exists bs' dd todo', bread_ready (Datatypes.S fuel) zf bs n = (bs', Ok dd) /\ len dd <= n /\
      concat ds = dd ++ todo' /\ RI bs' todo' /\ (dd = [] -> concat ds = [] /\ b_mode bs' = BFinish).
  Proof.
    intros Hbl Hn HRs Hid Hoffs Hcur Hlast Hproj.
    assert (Hne : exists x xs, map (BContent id) ds ++ [BEof id h] = x :: xs).
    { destruct ds; cbn [map app]; eauto. }
    destruct Hne as (x & xs & Hx). rewrite Hx in Hproj.
    destruct (proj_split id rest x xs Hproj) as (skipped & rest2 & -> & Hsk & Hr2 & Hhx).
    destruct skipped as [|y sk].
    - (* directly on a block of the file *)
      cbn [app] in Hbl.
      apply (bread_ready_hit _ zf bs done x rest2 xs ds h n); auto.
      rewrite run_offs_app. cbn [Blocks.ser_block RoundTripBlocks.run_offs].
      rewrite Hlast. rewrite andb_false_r. cbn [app]. rewrite app_nil_r. exact Hcur.
    - (* a foreign block: parse it, jump to the next offset, which is x *)
      cbn [app] in Hbl.
      cbn [proj filter] in Hsk. destruct (has_id id y) eqn:Ey; [discriminate|].
      destruct (next_at zf (b_id bs) _ done y (sk ++ x :: rest2) Hbl HRs) as (s1 & Hp & HR1).
      set (done2 := done ++ y :: sk).
      assert (Hbl2 : bl = done2 ++ x :: rest2) by (unfold done2; rewrite Hbl, <- app_assoc; reflexivity).
      assert (Hro : forall tl, run_offs id None 0 (done2 ++ x :: tl) =
                run_offs id None 0 done ++ len (ser_blocks done2) ::
                run_offs id (block_id x) (len (ser_blocks done2) + len (ser_block x)) tl).
      { intros tl. unfold done2. rewrite <- app_assoc. rewrite run_offs_app. f_equal.
        rewrite run_offs_app.
        rewrite (run_offs_foreign _ _ _ _ id _ _ (y :: sk)) by (cbn [proj filter]; rewrite Ey; exact Hsk).
        cbn [app RoundTripBlocks.run_offs]. rewrite Hhx.
        change (last_id (last_id None done) (y :: sk)) with (last_id (block_id y) sk).
        rewrite (last_id_foreign id (block_id y) sk Hsk) by exact Ey.
        cbn [andb negb app]. rewrite ser_blocks_app, len_app, N.add_0_l. reflexivity. }
      assert (Hnth : nth_error offs (Datatypes.S (b_cur bs)) = Some (len (ser_blocks done2))).
      { rewrite Hbl2 at 1. rewrite Hro, Hcur. apply nth_error_mid. }
      destruct (ref_sk _ _ _ HR s1 _ (FromStart (len (ser_blocks done2))) (len (ser_blocks done2)) HR1) as (s2 & Hsk2 & HR2).
      { apply target_start. apply (pos_in_range done2 (x :: rest2) Hbl2). }
      set (bs2 := mkB s2 BReady id (Datatypes.S (b_cur bs)) offs).
      destruct (bread_ready_hit fuel zf bs2 done2 x rest2 xs ds h n Hbl2 Hn) as (bs' & dd & todo' & Hbr & Hrest); auto.
      { cbn [bs2 b_cur]. pose proof (Hro []) as Hro'. rewrite Hro'. cbn [RoundTripBlocks.run_offs].
        rewrite app_length. cbn [length]. lia. }
      exists bs', dd, todo'. split; [|exact Hrest].
      cbn [Reader.bread_ready]. rewrite Hp.
      assert (Hskip : (let b1 := bset S bs s1 BReady in
                match Reader.bmove S b1 with
                | (b2, Ok _) => bread_ready fuel zf b2 n
                | (b2, Err e) => (b2, Err e)
                | (b2, Crash c) => (b2, Crash c)
                end) = (bs', Ok dd)).
      { cbv zeta. unfold bmove. cbn [bset b_cur b_offs b_src b_mode b_id].
        rewrite Hoffs, Hnth, Hsk2, Hid. exact Hbr. }
      cbv zeta in Hskip |- *.
      assert (Hidy : forall i, block_id y = Some i -> (i =? b_id bs) = false).
      { intros i Hi. unfold has_id in Ey. rewrite Hi in Ey. rewrite Hid. exact Ey. }
      destruct y as [i nm|i dt|i hh|]; cbn [pb_of block_id] in *.
      + rewrite (Hidy i eq_refl). exact Hskip.
      + rewrite (Hidy i eq_refl). exact Hskip.
      + rewrite (Hidy i eq_refl). exact Hskip.
      + exfalso. apply Hnoend. rewrite Hbl. apply in_or_app. right. left. reflexivity.
  Qed.

  (* one call of read with a positive buffer size *)
  Theorem bread_step zf bs todo n : RI bs todo -> 0 < n ->
    exists bs' dd todo', bread zf bs n = (bs', Ok dd) /\ len dd <= n /\ todo = dd ++ todo' /\
      RI bs' todo' /\ (dd = [] -> todo = [] /\ b_mode bs' = BFinish).
  Proof.
    intros HRI Hn. destruct HRI.
    - destruct (bread_ready_spec (length (b_offs bs)) zf bs done rest ds h n Hbl Hn Hpos Hid Hoffs Hcur Hlast Hproj)
        as (bs' & dd & todo' & Hbr & Hdn & Htd & HRI' & Hemp).
      exists bs', dd, todo'. unfold Reader.bread. rewrite Hmode, Hbr.
      split; [reflexivity|]. split; [exact Hdn|]. split; [subst todo; exact Htd|]. split; [exact HRI'|].
      intros ->. subst todo. apply Hemp. reflexivity.
    - destruct (bread_data_spec bs (b_src bs) done d rest ds h rem n Hbl) as (bs' & dd & todo' & Hbd & Hdd0 & Hddn & Htd & HRI');
        auto; try lia.
      exists bs', dd, todo'. unfold Reader.bread. rewrite Hmode, Hbd. subst todo.
      split; [reflexivity|]. split; [exact Hddn|]. split; [exact Htd|]. split; [exact HRI'|].
      intros ->. unfold len in Hdd0; cbn [length] in Hdd0; lia.
    - exists bs, [], []. unfold Reader.bread. rewrite Hmode. subst todo.
      split; [reflexivity|]. split; [unfold len; cbn [length]; lia|]. split; [reflexivity|].
      split; [apply RI_finish; auto | auto].
  Qed.

  (* reading to the end with any positive buffer sizes delivers exactly todo *)
  Theorem read_all_spec sizes : (forall i, 0 < sizes i) ->
    forall zf fuel bs todo i acc, RI bs todo -> (length todo < fuel)%nat ->
    exists bs', read_all zf fuel bs sizes i acc = (bs', Ok (acc ++ todo)) /\ b_mode bs' = BFinish.
  Proof.
    intros Hsz zf. induction fuel as [|f IH]; intros bs todo i acc HRI Hf; [lia|].
    cbn [read_all].
    destruct (bread_step zf bs todo (sizes i) HRI (Hsz i)) as (bs' & dd & todo' & -> & Hdn & Htd & HRI' & Hemp).
    destruct dd as [|x dd].
    - destruct (Hemp eq_refl) as [-> Hm]. exists bs'. rewrite app_nil_r. auto.
    - destruct (IH bs' todo' (Datatypes.S i) (acc ++ x :: dd) HRI') as (bs'' & Hra & Hm).
      { subst todo. rewrite app_length in Hf. cbn [length] in Hf. lia. }
      exists bs''. rewrite Hra. subst todo. rewrite <- app_assoc. auto.
  Qed.


  Lemma RI_pos bs todo : RI bs todo -> exists p, R (b_src bs) p.
  Proof. intros []; eauto. Qed.

  (* reading to the end: as read_all_spec, and the reader still stands in the stream *)
  Theorem read_all_pos sizes : (forall i, 0 < sizes i) ->
    forall zf fuel bs todo i acc, RI bs todo -> (length todo < fuel)%nat ->
    exists bs', read_all zf fuel bs sizes i acc = (bs', Ok (acc ++ todo)) /\ b_mode bs' = BFinish /\
                exists p, R (b_src bs') p.
  Proof.
    intros Hsz zf. induction fuel as [|f IH]; intros bs todo i acc HRI Hf; [lia|].
    cbn [RoundTripReader.read_all].
    destruct (bread_step zf bs todo (sizes i) HRI (Hsz i)) as (bs' & dd & todo' & -> & Hdn & Htd & HRI' & Hemp).
    destruct dd as [|x dd].
    - destruct (Hemp eq_refl) as [-> Hm]. exists bs'. rewrite app_nil_r. split; [reflexivity|]. split; [exact Hm|].
      exact (RI_pos bs' todo' HRI').
    - destruct (IH bs' todo' (Datatypes.S i) (acc ++ x :: dd) HRI') as (bs'' & Hra & Hm & Hp).
      { subst todo. rewrite app_length in Hf. cbn [length] in Hf. lia. }
      exists bs''. rewrite Hra. subst todo. rewrite <- app_assoc. auto.
  Qed.
  (* ---------- get_file / get_hash on a reader whose footer is m ---------- *)
  Notation get_file := (get_file FNMAX T_START T_CONTENT T_EOA T_EOF S).
  Notation get_hash := (get_hash FNMAX T_START T_CONTENT T_EOA T_EOF S).
  Variable m : footer.

  Notation RState := (RoundTripReader.RState S R m).

  Theorem get_file_pos r name fi nm ds h :
    RState r -> flookup m name = Some fi ->
    fi_offsets fi = offs ->
    proj id bl = BStart id nm :: map (BContent id) ds ++ [BEof id h] ->
    exists r' bs, get_file r name = (r', Ok (Some (bs, fi_size fi))) /\ RState r' /\ RI bs (concat ds).
  Proof.
    intros [Hm [p HRp]] Hl Hoff Hproj.
    destruct (proj_split id bl _ _ Hproj) as (pre & rest & Hbl & Hpre & Hrest & Hh).
    assert (Hro : offs = len (ser_blocks pre) ::
              run_offs id (Some id) (len (ser_blocks pre) + len (ser_block (BStart id nm))) rest).
    { rewrite Hbl at 1. rewrite run_offs_app, (run_offs_foreign _ _ _ _ id _ _ pre Hpre).
      cbn [app RoundTripBlocks.run_offs block_id]. rewrite Hh.
      rewrite (last_id_foreign id None pre Hpre eq_refl). cbn [andb negb app].
      rewrite N.add_0_l. reflexivity. }
    unfold Reader.get_file. rewrite Hm, Hl, Hoff, Hro.
    destruct (ref_sk _ _ _ HR (r_src r) p (FromStart (len (ser_blocks pre))) (len (ser_blocks pre)) HRp) as (s1 & -> & HR1).
    { apply target_start. apply (pos_in_range pre _ Hbl). }
    destruct (parse_at s1 pre _ rest Hbl HR1) as (s2 & -> & HR2). cbn [pb_of].
    eexists _, _. split; [reflexivity|]. split; [split; [reflexivity | eexists; exact HR2]|].
    apply (RI_ready _ _ (pre ++ [BStart id nm]) rest ds h); cbn [b_mode b_src b_id b_offs b_cur]; auto.
    - rewrite Hbl, <- app_assoc. reflexivity.
    - rewrite ser_blocks_app, ser_blocks_cons, ser_blocks_nil, app_nil_r, len_app.
      assert (Hw : wfb (BStart id nm)).
      { rewrite Forall_forall in Hwf. apply Hwf. rewrite Hbl. apply in_or_app. right. left. reflexivity. }
      rewrite (len_ser_block FNMAX _ _ _ _ _ Hw). cbn [data_of]. rewrite len_nil, N.add_0_r. exact HR2.
    - rewrite run_offs_app, (run_offs_foreign _ _ _ _ id _ _ pre Hpre).
      cbn [app RoundTripBlocks.run_offs block_id]. rewrite Hh.
      rewrite (last_id_foreign id None pre Hpre eq_refl). reflexivity.
    - rewrite last_id_app. apply is_id_refl.
  Qed.

End RTReaderPos.
