(* Path.v — model of the path handling of `mlar extract` (mlar/src/main.rs):
   `std::path::Path::components()` on Unix, `get_extracted_path`, a small
   file system with directories, regular files and symbolic links (absolute
   or relative targets, ".." in targets), path resolution, `fs::canonicalize`,
   `fs::symlink_metadata`, `fs::create_dir_all`, `File::create`, append-mode
   reopen, `create_file` and the two extraction forms.
   Definitions only; everything is computable.  Proofs are in PathProofs.v. *)
From MLA Require Import Base.
From Coq Require Strings.String Strings.Ascii.
(* only the literal syntax is imported: `length`, `concat`, `append` of lists
   stay unshadowed *)
Import Coq.Strings.String.StringSyntax Coq.Strings.Ascii.AsciiSyntax.

(* ------------------------------------------------------------------ *)
(** * Strings as bytes *)

Definition s2b (s : String.string) : bytes :=
  map Ascii.N_of_ascii (String.list_ascii_of_string s).
Arguments s2b s%string_scope.

Definition SEP : N := 47. (* '/' *)
Definition DOT : N := 46. (* '.' *)

(* ------------------------------------------------------------------ *)
(** * Path::components() on Unix *)

Inductive component :=
| RootDir
| CurDir
| ParentDir
| Normal (b : bytes).

(* Split on a separator.  The result is never empty: "" gives [""],
   "a/" gives ["a"; ""], "/" gives [""; ""]. *)
Fixpoint split_on (sep : N) (s : bytes) : list bytes :=
  match s with
  | [] => [[]]
  | c :: s' =>
      if c =? sep then [] :: split_on sep s'
      else match split_on sep s' with
           | [] => [[c]] (* unreachable *)
           | w :: ws => (c :: w) :: ws
           end
  end.

(* std::path::Components::parse_single_component (non-verbatim prefix):
   "" -> None, "." -> None, ".." -> ParentDir, other -> Normal *)
Definition classify (w : bytes) : list component :=
  match w with
  | [] => []
  | _ =>
      if bytes_eqb w [DOT] then []
      else if bytes_eqb w [DOT; DOT] then [ParentDir]
      else [Normal w]
  end.

(* The first piece is special: an empty first piece of a non-empty string
   means the string starts with '/' (has_physical_root -> RootDir); a first
   piece "." of a relative path is kept as CurDir (include_cur_dir). *)
Definition components (s : bytes) : list component :=
  match split_on SEP s with
  | [] => []                 (* unreachable *)
  | [] :: [] => []           (* s = "" *)
  | [] :: ws => RootDir :: flat_map classify ws
  | w :: ws =>
      (if bytes_eqb w [DOT] then [CurDir] else classify w) ++ flat_map classify ws
  end.

(* ------------------------------------------------------------------ *)
(** * get_extracted_path *)

(* Paths on the model file system: absolute, already split, components from
   the root.  [] is "/". *)
Definition path := list bytes.

Inductive action := Skip | Refuse | Push (b : bytes).

(* the `match part { .. }` of get_extracted_path (Prefix does not exist on Unix) *)
Definition component_action (c : component) : action :=
  match c with
  | RootDir | CurDir => Skip
  | ParentDir => Refuse
  | Normal b => Push b
  end.

(* PathBuf::push of a Normal part (non-empty, no '/', see components_no_sep)
   appends exactly one component. *)
Fixpoint apply_actions (acc : path) (cs : list component) : option path :=
  match cs with
  | [] => Some acc
  | c :: cs' =>
      match component_action c with
      | Skip => apply_actions acc cs'
      | Refuse => None
      | Push b => apply_actions (acc ++ [b]) cs'
      end
  end.

Definition get_extracted_path (out : path) (name : bytes) : option path :=
  apply_actions out (components name).

(* the Normal parts, in order *)
Fixpoint normals (cs : list component) : path :=
  match cs with
  | [] => []
  | Normal b :: cs' => b :: normals cs'
  | _ :: cs' => normals cs'
  end.

(* normalised member name: the components pushed below the output directory *)
Definition norm (name : bytes) : path := normals (components name).

(* A variant WITHOUT the ".." filter, used to show that the canonicalize check
   of create_file does not depend on it: ".." pops a component (lexically). *)
Fixpoint apply_nofilter (acc : path) (cs : list component) : path :=
  match cs with
  | [] => acc
  | Normal b :: cs' => apply_nofilter (acc ++ [b]) cs'
  | ParentDir :: cs' => apply_nofilter (removelast acc) cs'
  | _ :: cs' => apply_nofilter acc cs'
  end.
Definition get_path_nofilter (out : path) (name : bytes) : option path :=
  Some (apply_nofilter out (components name)).

(* ------------------------------------------------------------------ *)
(** * Model file system *)

(* A step of a symbolic-link target: ".." or a name.  ("." and empty pieces of
   a target string are no-ops for the kernel and are not represented.) *)
Inductive seg := Up | Down (c : bytes).

(* Target of a symbolic link: (absolute?, steps).  "../sibling" is
   (false, [Up; Down "sibling"]); "/etc/passwd" is (true, [Down "etc"; Down
   "passwd"]).  A relative target is resolved from the directory that holds
   the link. *)
Definition target := (bool * list seg)%type.

Inductive node :=
| Dir
| File (content : bytes)
| Link (t : target).       (* symbolic link *)

(* Association list from physical absolute paths to nodes, first match wins.
   "/" ([]) is always a directory.  A key is the physical location of its
   node: every operation below stores at a path it has resolved.  An entry
   whose parent is not a directory is unreachable by path resolution (the
   theorems hold for such stores too). *)
Definition fs := list (path * node).

Definition path_eqb : path -> path -> bool := list_eqb bytes_eqb.

Fixpoint lookup_raw (f : fs) (p : path) : option node :=
  match f with
  | [] => None
  | (q, n) :: f' => if path_eqb q p then Some n else lookup_raw f' p
  end.

Definition lookup (f : fs) (p : path) : option node :=
  match p with
  | [] => Some Dir
  | _ => lookup_raw f p
  end.

Definition set (f : fs) (p : path) (n : node) : fs := (p, n) :: f.

Definition is_dir (f : fs) (p : path) : bool :=
  match lookup f p with Some Dir => true | _ => false end.

(* Path::starts_with: component-wise prefix *)
Fixpoint prefixb (a b : path) : bool :=
  match a, b with
  | [], _ => true
  | x :: a', y :: b' => bytes_eqb x y && prefixb a' b'
  | _ :: _, [] => false
  end.

(* Path::parent / file_name: None for "/" *)
Fixpoint split_last {A} (l : list A) : option (list A * A) :=
  match l with
  | [] => None
  | x :: l' =>
      match split_last l' with
      | None => Some ([], x)
      | Some (i, z) => Some (x :: i, z)
      end
  end.

(** ** path resolution (path_resolution(7)), canonicalize *)

(* a literal path (no ".." in it) as steps *)
Definition down (p : path) : list seg := map Down p.

(* where the resolution of a link target starts: "/" for an absolute target,
   the directory holding the link (cur, physical) for a relative one *)
Definition link_base (cur : path) (t : target) : path := if fst t then [] else cur.

(* Walk from the physical directory `cur` along `rest` until the end, a
   failure, or the first symbolic link.  ".." goes to the physical parent of
   the current directory ("/.." is "/").  On a link the walk stops and hands
   back where to continue: the base of the target and target ++ what was left. *)
Inductive walk_res :=
| WDone (p : path)
| WFail
| WLink (cur : path) (rest : list seg).

Fixpoint walk (f : fs) (cur : path) (rest : list seg) : walk_res :=
  match rest with
  | [] => WDone cur
  | Up :: rest' => walk f (removelast cur) rest'
  | Down c :: rest' =>
      match lookup f (cur ++ [c]) with
      | None => WFail                                   (* ENOENT *)
      | Some Dir => walk f (cur ++ [c]) rest'
      | Some (File _) =>
          match rest' with [] => WDone (cur ++ [c]) | _ => WFail (* ENOTDIR *) end
      | Some (Link t) => WLink (link_base cur t) (snd t ++ rest')
      end
  end.

(* `links` bounds the number of symbolic links followed: beyond it the
   resolution fails (ELOOP).  This is the only well-formedness the model needs
   for link cycles: a cycle makes resolution fail, as in the kernel. *)
Fixpoint resolve (links : nat) (f : fs) (cur : path) (rest : list seg) : option path :=
  match walk f cur rest with
  | WDone q => Some q
  | WFail => None
  | WLink cur' rest' =>
      match links with
      | O => None
      | S k => resolve k f cur' rest'
      end
  end.

Definition MAXSYMLINKS : nat := 40.  (* Linux *)

(* fs::canonicalize: all components must exist; symlinks resolved everywhere,
   including the last component. *)
Definition canonicalize (f : fs) (p : path) : option path :=
  resolve MAXSYMLINKS f [] (down p).

(* Path::exists: metadata() succeeds (follows symlinks) *)
Definition exists_ (f : fs) (p : path) : bool :=
  match canonicalize f p with Some _ => true | None => false end.

(* fs::symlink_metadata = lstat: the parent is resolved (following links), the
   last component is NOT followed *)
Definition lstat (f : fs) (p : path) : option node :=
  match split_last p with
  | None => Some Dir
  | Some (par, c) =>
      match canonicalize f par with
      | Some q => if is_dir f q then lookup f (q ++ [c]) else None
      | None => None
      end
  end.

Definition is_symlink (f : fs) (p : path) : bool :=
  match lstat f p with Some (Link _) => true | _ => false end.

(** ** create_dir_all *)

(* mkdir along `rest` from the physical directory `cur`.  A missing component
   is created as a real directory; an existing directory, or a symlink that
   resolves to a directory, is entered (so what follows is created where the
   link points, possibly outside the output directory); anything else is an
   error.  Directories created before an error stay (the bool is false on
   error).  [std: mkdir(path); on ENOENT create_dir_all(parent) then mkdir(path);
   EEXIST is fine when path.is_dir(), which follows links.] *)
Fixpoint mkdir_all (f : fs) (cur rest : path) : fs * bool :=
  match rest with
  | [] => (f, true)
  | c :: rest' =>
      match lookup f (cur ++ [c]) with
      | None => mkdir_all (set f (cur ++ [c]) Dir) (cur ++ [c]) rest'
      | Some Dir => mkdir_all f (cur ++ [c]) rest'
      | Some (File _) => (f, false)
      | Some (Link t) =>
          match resolve MAXSYMLINKS f (link_base cur t) (snd t) with
          | Some q => if is_dir f q then mkdir_all f q rest' else (f, false)
          | None => (f, false)
          end
      end
  end.

Definition create_dir_all (f : fs) (p : path) : fs * bool := mkdir_all f [] p.

(** ** File::create = open(O_WRONLY|O_CREAT|O_TRUNC) *)

(* Resolves the parent (following symlinks), which must be a directory; then
   creates the file, truncates an existing one, fails on a directory, and
   FOLLOWS a symbolic link in the last component (no O_NOFOLLOW), creating the
   target if it dangles.  Returns the new file system and the physical path
   of the file that was created/truncated.  (The kernel has one budget of 40
   links for the whole open(); here the parent and the chain of final links
   have one each: only the ELOOP threshold differs.) *)
Fixpoint open_create (links : nat) (f : fs) (cur : path) (rest : list seg)
  : option (fs * path) :=
  match split_last rest with
  | None => None                       (* the directory itself: EISDIR *)
  | Some (_, Up) => None               (* ".." : EISDIR *)
  | Some (par, Down c) =>
      match resolve MAXSYMLINKS f cur par with
      | None => None
      | Some q =>
          if is_dir f q then
            match lookup f (q ++ [c]) with
            | None => Some (set f (q ++ [c]) (File []), q ++ [c])
            | Some (File _) => Some (set f (q ++ [c]) (File []), q ++ [c])
            | Some Dir => None         (* EISDIR *)
            | Some (Link t) =>
                match links with
                | O => None            (* ELOOP *)
                | S k => open_create k f (link_base q t) (snd t)
                end
            end
          else None                    (* ENOTDIR *)
      end
  end.

Definition file_create (f : fs) (p : path) : option (fs * path) :=
  open_create MAXSYMLINKS f [] (down p).

(* write(2) on the handle returned by File::create: appends to the file at the
   physical path the handle refers to (io::copy in the per-file loop). *)
Definition write_at (f : fs) (cp : path) (data : bytes) : fs :=
  match lookup f cp with
  | Some (File old) => set f cp (File (old ++ data))
  | _ => f
  end.

(* FileWriter::write of the linear extraction: OpenOptions::append(true).open(path)
   on the LITERAL extracted path, resolved again at that time, following
   symbolic links everywhere (no O_NOFOLLOW, no O_CREAT).  The real FileWriter
   keeps up to 1000 handles open in an LRU pool and re-opens by path when a
   handle has been evicted; the model re-opens for every block, which is the
   same file by PathLinks.canonicalize_stable (no operation of the extraction
   creates, removes or retargets a link, removes a directory or turns a file
   into something else). *)
Definition append_path (f : fs) (p : path) (data : bytes) : option (fs * path) :=
  match canonicalize f p with
  | Some q =>
      match lookup f q with
      | Some (File old) => Some (set f q (File (old ++ data)), q)
      | _ => None
      end
  | None => None
  end.

(* fs::read(p): resolve p (following symlinks) and return the content of the
   regular file found there *)
Definition read_file (f : fs) (p : path) : option bytes :=
  match canonicalize f p with
  | Some q => match lookup f q with Some (File d) => Some d | _ => None end
  | None => None
  end.

(* ------------------------------------------------------------------ *)
(** * create_file *)

(* Result<Option<(File, PathBuf)>, MlarError> *)
Inductive outcome :=
| Created (literal canonical : path) (* Ok(Some((file, extracted_path))); `canonical`
                                        is where the handle `file` points *)
| Skipped                            (* Ok(None): the member is skipped *)
| Failed.                            (* Err(_): `?` in `extract` aborts the whole extraction *)

(* Limits of the system-call interface (Linux): a component longer than
   NAME_MAX bytes gives ENAMETOOLONG, a path string of PATH_MAX bytes or more
   (with its terminating NUL) gives ENAMETOOLONG, a NUL byte inside the path is
   rejected by Rust's CString conversion (InvalidInput).  For such a path
   `exists()` is false, and mkdir/lstat/open fail before touching anything
   (observed with rust/cf.rs: Failed(InvalidFilename) / Failed(InvalidInput)). *)
Definition NAME_MAX : N := 255.
Definition PATH_MAX : N := 4096.
Definition comp_ok (c : bytes) : bool :=
  (len c <=? NAME_MAX) && negb (existsb (N.eqb 0) c).
Fixpoint path_strlen (p : path) : N :=
  match p with
  | [] => 0
  | c :: p' => 1 + len c + path_strlen p'
  end.
Definition sys_ok (p : path) : bool :=
  forallb comp_ok p && (path_strlen p <? PATH_MAX).

(* `if !containing_directory.exists() { fs::create_dir_all(containing_directory)? }` *)
Definition prepare_parent (f : fs) (par : path) : fs * bool :=
  if sys_ok par then
    if exists_ f par then (f, true) else create_dir_all f par
  else (f, false).

(* `fs::symlink_metadata(&extracted_path).is_ok_and(|m| m.file_type().is_symlink())` *)
Definition sys_is_symlink (f : fs) (p : path) : bool :=
  sys_ok p && is_symlink f p.

(* File::create(&extracted_path) *)
Definition sys_file_create (f : fs) (p : path) : option (fs * path) :=
  if sys_ok p then file_create f p else None.

(* create_file, parameterised by the path-computing function `gp` (the real one
   is get_extracted_path), by the check `chk out canonical_parent` (the real
   one is prefixb, i.e. Path::starts_with) and by the test `lt fs
   extracted_path` (the real one is sys_is_symlink; before the repair of D23
   there was none: fun _ _ => false).

   Order of the real code: component filter, parent(), exists(),
   create_dir_all, canonicalize(parent), starts_with(output_dir),
   symlink_metadata(extracted_path), File::create.

   `out` is the `output_dir` argument.  In main.rs both call sites (the linear
   extraction loop and the per-file loop of `extract`) pass `&output_dir` where
   `output_dir` has been rebound to `fs::canonicalize(output_dir)?` after being
   created if missing.  So `out` is canonical (absolute, symlink-free, no "."
   or "..") at the time `extract` starts, and `starts_with` compares the
   canonical parent against that canonical path, component-wise.  The same
   value is also the base onto which get_extracted_path pushes. *)
Definition create_file_with
    (gp : path -> bytes -> option path) (chk : path -> path -> bool)
    (lt : fs -> path -> bool)
    (out : path) (name : bytes) (f : fs) : fs * outcome :=
  match gp out name with
  | None => (f, Skipped)                        (* name contains ".." *)
  | Some p =>
      match split_last p with
      | None => (f, Skipped)                    (* no parent *)
      | Some (par, _) =>
          match prepare_parent f par with
          | (f1, false) => (f1, Failed)         (* create_dir_all error *)
          | (f1, true) =>
              match canonicalize f1 par with
              | None => (f1, Failed)            (* canonicalize error *)
              | Some q =>
                  if chk out q then
                    if lt f1 p then (f1, Skipped)   (* "already exists as a symbolic link" *)
                    else
                      match sys_file_create f1 p with
                      | None => (f1, Failed)      (* File::create error *)
                      | Some (f2, cp) => (f2, Created p cp)
                      end
                  else (f1, Skipped)            (* "would be extracted outside" *)
              end
          end
      end
  end.

Definition create_file : path -> bytes -> fs -> fs * outcome :=
  create_file_with get_extracted_path prefixb sys_is_symlink.

(* create_file without the canonicalize/starts_with test taken into account *)
Definition create_file_nocheck : path -> bytes -> fs -> fs * outcome :=
  create_file_with get_extracted_path (fun _ _ => true) sys_is_symlink.

(* create_file as it was before the repair of D23: no symlink_metadata test *)
Definition create_file_old : path -> bytes -> fs -> fs * outcome :=
  create_file_with get_extracted_path prefixb (fun _ _ => false).

(* ------------------------------------------------------------------ *)
(** * extraction of a list of members *)

(* per-file loop of `extract`: create_file, then io::copy into the handle *)
Definition extract_member (out : path) (m : bytes * bytes) (f : fs) : fs * bool :=
  match create_file out (fst m) f with
  | (f1, Created _ cp) => (write_at f1 cp (snd m), true)
  | (f1, Skipped) => (f1, true)
  | (f1, Failed) => (f1, false)
  end.

(* false: the extraction was aborted by an error (`?`), later members are not
   extracted *)
Fixpoint extract_all (out : path) (ms : list (bytes * bytes)) (f : fs) : fs * bool :=
  match ms with
  | [] => (f, true)
  | m :: ms' =>
      match extract_member out m f with
      | (f1, true) => extract_all out ms' f1
      | (f1, false) => (f1, false)
      end
  end.

(* linear extraction: first create_file for every name (phase 1), then the
   content arrives as blocks (name, data) in archive order and each block is
   appended through a FileWriter that re-opens the literal path (phase 2). *)
Fixpoint create_all (out : path) (names : list bytes) (f : fs)
  : fs * list (bytes * path) * bool :=
  match names with
  | [] => (f, [], true)
  | n :: names' =>
      match create_file out n f with
      | (f1, Created lit _) =>
          match create_all out names' f1 with
          | (f2, ex, ok) => (f2, (n, lit) :: ex, ok)
          end
      | (f1, Skipped) => create_all out names' f1
      | (f1, Failed) => (f1, [], false)
      end
  end.

Fixpoint find_export (ex : list (bytes * path)) (n : bytes) : option path :=
  match ex with
  | [] => None
  | (n', p) :: ex' => if bytes_eqb n' n then Some p else find_export ex' n
  end.

Fixpoint append_blocks (ex : list (bytes * path)) (blocks : list (bytes * bytes)) (f : fs)
  : fs * bool :=
  match blocks with
  | [] => (f, true)
  | (n, data) :: blocks' =>
      match find_export ex n with
      | None => append_blocks ex blocks' f    (* not in `export`: data dropped *)
      | Some lit =>
          match append_path f lit data with
          | Some (f1, _) => append_blocks ex blocks' f1
          | None => (f, false)
          end
      end
  end.

Definition extract_linear (out : path) (names : list bytes)
    (blocks : list (bytes * bytes)) (f : fs) : fs * bool :=
  match create_all out names f with
  | (f1, ex, true) => append_blocks ex blocks f1
  | (f1, _, false) => (f1, false)
  end.

(* ------------------------------------------------------------------ *)
(** * The sandbox of the harness job c16-symlink *)

(* "/" is the sandbox directory; `mlar extract -o out` runs in it.
     sibling/  sibling/keepdir/  sibling/keep.txt="keep"  outside.txt="outside"
     out/  out/deep/
     out/link    -> ../sibling             (directory outside)
     out/deep/l2 -> ../../sibling/keepdir  (directory outside, two levels up)
     out/flink   -> ../outside.txt         (regular file outside) *)
Definition fs_sandbox : fs :=
  [ ([s2b "sibling"], Dir);
    ([s2b "sibling"; s2b "keepdir"], Dir);
    ([s2b "sibling"; s2b "keep.txt"], File (s2b "keep"));
    ([s2b "outside.txt"], File (s2b "outside"));
    ([s2b "out"], Dir);
    ([s2b "out"; s2b "deep"], Dir);
    ([s2b "out"; s2b "link"], Link (false, [Up; Down (s2b "sibling")]));
    ([s2b "out"; s2b "deep"; s2b "l2"],
       Link (false, [Up; Up; Down (s2b "sibling"); Down (s2b "keepdir")]));
    ([s2b "out"; s2b "flink"], Link (false, [Up; Down (s2b "outside.txt")]));
    (* a dangling link: its target does not exist (File::create through it would create it) *)
    ([s2b "out"; s2b "dlink"], Link (false, [Up; Down (s2b "nowhere.txt")])) ].

(* ------------------------------------------------------------------ *)
(** * components: agreement with the real std::path on Linux *)

(* generated by rust/gen.rs from std::path::Path::components() (rustc on Linux) *)
Example components_ex00 : components (s2b "") = [].
Proof. vm_compute; reflexivity. Qed.
Example components_ex01 : components (s2b "/") = [RootDir].
Proof. vm_compute; reflexivity. Qed.
Example components_ex02 : components (s2b "//") = [RootDir].
Proof. vm_compute; reflexivity. Qed.
Example components_ex03 : components (s2b "///a") = [RootDir; Normal (s2b "a")].
Proof. vm_compute; reflexivity. Qed.
Example components_ex04 : components (s2b "//a") = [RootDir; Normal (s2b "a")].
Proof. vm_compute; reflexivity. Qed.
Example components_ex05 : components (s2b "a//b/") = [Normal (s2b "a"); Normal (s2b "b")].
Proof. vm_compute; reflexivity. Qed.
Example components_ex06 : components (s2b "./a") = [CurDir; Normal (s2b "a")].
Proof. vm_compute; reflexivity. Qed.
Example components_ex07 : components (s2b "a/./b") = [Normal (s2b "a"); Normal (s2b "b")].
Proof. vm_compute; reflexivity. Qed.
Example components_ex08 : components (s2b "a/.") = [Normal (s2b "a")].
Proof. vm_compute; reflexivity. Qed.
Example components_ex09 : components (s2b ".") = [CurDir].
Proof. vm_compute; reflexivity. Qed.
Example components_ex10 : components (s2b "..") = [ParentDir].
Proof. vm_compute; reflexivity. Qed.
Example components_ex11 : components (s2b "a/..") = [Normal (s2b "a"); ParentDir].
Proof. vm_compute; reflexivity. Qed.
Example components_ex12 : components (s2b "/..") = [RootDir; ParentDir].
Proof. vm_compute; reflexivity. Qed.
Example components_ex13 : components (s2b "...") = [Normal (s2b "...")].
Proof. vm_compute; reflexivity. Qed.
Example components_ex14 : components (s2b "a/.../b") = [Normal (s2b "a"); Normal (s2b "..."); Normal (s2b "b")].
Proof. vm_compute; reflexivity. Qed.
Example components_ex15 : components (s2b "./.") = [CurDir].
Proof. vm_compute; reflexivity. Qed.
Example components_ex16 : components (s2b ".//") = [CurDir].
Proof. vm_compute; reflexivity. Qed.
Example components_ex17 : components (s2b "a/b/../c") = [Normal (s2b "a"); Normal (s2b "b"); ParentDir; Normal (s2b "c")].
Proof. vm_compute; reflexivity. Qed.
Example components_ex18 : components (s2b ".a") = [Normal (s2b ".a")].
Proof. vm_compute; reflexivity. Qed.
Example components_ex19 : components (s2b "a.") = [Normal (s2b "a.")].
Proof. vm_compute; reflexivity. Qed.
Example components_ex20 : components (s2b " ") = [Normal (s2b " ")].
Proof. vm_compute; reflexivity. Qed.
Example components_ex21 : components (s2b "/./a") = [RootDir; Normal (s2b "a")].
Proof. vm_compute; reflexivity. Qed.
Example components_ex22 : components (s2b "//./a") = [RootDir; Normal (s2b "a")].
Proof. vm_compute; reflexivity. Qed.
Example components_ex23 : components (s2b "../a") = [ParentDir; Normal (s2b "a")].
Proof. vm_compute; reflexivity. Qed.
Example components_ex24 : components (s2b "a/../..") = [Normal (s2b "a"); ParentDir; ParentDir].
Proof. vm_compute; reflexivity. Qed.
Example components_ex25 : components (s2b "./..") = [CurDir; ParentDir].
Proof. vm_compute; reflexivity. Qed.
Example components_ex26 : components (s2b "../.") = [ParentDir].
Proof. vm_compute; reflexivity. Qed.
Example components_ex27 : components (s2b "/.") = [RootDir].
Proof. vm_compute; reflexivity. Qed.
Example components_ex28 : components (s2b "/./") = [RootDir].
Proof. vm_compute; reflexivity. Qed.
Example components_ex29 : components (s2b "/a/./") = [RootDir; Normal (s2b "a")].
Proof. vm_compute; reflexivity. Qed.
Example components_ex30 : components (s2b "a/") = [Normal (s2b "a")].
Proof. vm_compute; reflexivity. Qed.
Example components_ex31 : components (s2b "a") = [Normal (s2b "a")].
Proof. vm_compute; reflexivity. Qed.
Example components_ex32 : components (s2b "/a") = [RootDir; Normal (s2b "a")].
Proof. vm_compute; reflexivity. Qed.
Example components_ex33 : components (s2b "a/b") = [Normal (s2b "a"); Normal (s2b "b")].
Proof. vm_compute; reflexivity. Qed.
Example components_ex34 : components (s2b "./a/./b/.") = [CurDir; Normal (s2b "a"); Normal (s2b "b")].
Proof. vm_compute; reflexivity. Qed.
Example components_ex35 : components (s2b "././a") = [CurDir; Normal (s2b "a")].
Proof. vm_compute; reflexivity. Qed.
Example components_ex36 : components (s2b ".//./a") = [CurDir; Normal (s2b "a")].
Proof. vm_compute; reflexivity. Qed.
Example components_ex37 : components (s2b "..a") = [Normal (s2b "..a")].
Proof. vm_compute; reflexivity. Qed.
Example components_ex38 : components (s2b "a..") = [Normal (s2b "a..")].
Proof. vm_compute; reflexivity. Qed.
Example components_ex39 : components (s2b "a/..b/c") = [Normal (s2b "a"); Normal (s2b "..b"); Normal (s2b "c")].
Proof. vm_compute; reflexivity. Qed.
Example components_ex40 : components (s2b "a/b../c") = [Normal (s2b "a"); Normal (s2b "b.."); Normal (s2b "c")].
Proof. vm_compute; reflexivity. Qed.
Example components_ex41 : components (s2b ". /a") = [Normal (s2b ". "); Normal (s2b "a")].
Proof. vm_compute; reflexivity. Qed.
Example components_ex42 : components (s2b "/../a") = [RootDir; ParentDir; Normal (s2b "a")].
Proof. vm_compute; reflexivity. Qed.
Example components_ex43 : components (s2b "é/ü") = [Normal (s2b "é"); Normal (s2b "ü")].
Proof. vm_compute; reflexivity. Qed.
Example components_ex44 : components (s2b "a/./") = [Normal (s2b "a")].
Proof. vm_compute; reflexivity. Qed.
Example components_ex45 : components (s2b "././.") = [CurDir].
Proof. vm_compute; reflexivity. Qed.
Example components_ex46 : components (s2b "/./.") = [RootDir].
Proof. vm_compute; reflexivity. Qed.
Example components_ex47 : components (s2b "./../x") = [CurDir; ParentDir; Normal (s2b "x")].
Proof. vm_compute; reflexivity. Qed.
Example components_ex48 : components (s2b "a/ /b") = [Normal (s2b "a"); Normal (s2b " "); Normal (s2b "b")].
Proof. vm_compute; reflexivity. Qed.
Example components_ex49 : components (s2b ".../..") = [Normal (s2b "..."); ParentDir].
Proof. vm_compute; reflexivity. Qed.
Example components_ex50 : components (s2b "/etc/passwd") = [RootDir; Normal (s2b "etc"); Normal (s2b "passwd")].
Proof. vm_compute; reflexivity. Qed.
Example components_ex51 : components (s2b "../../../etc/passwd") = [ParentDir; ParentDir; ParentDir; Normal (s2b "etc"); Normal (s2b "passwd")].
Proof. vm_compute; reflexivity. Qed.
Example components_ex52 : components (s2b "a/b/c/../../../../x") = [Normal (s2b "a"); Normal (s2b "b"); Normal (s2b "c"); ParentDir; ParentDir; ParentDir; ParentDir; Normal (s2b "x")].
Proof. vm_compute; reflexivity. Qed.
Example components_ex53 : components (s2b "..//") = [ParentDir].
Proof. vm_compute; reflexivity. Qed.
Example components_ex54 : components (s2b "/..//../") = [RootDir; ParentDir; ParentDir].
Proof. vm_compute; reflexivity. Qed.
Example components_ex55 : components (s2b "a/...") = [Normal (s2b "a"); Normal (s2b "...")].
Proof. vm_compute; reflexivity. Qed.
