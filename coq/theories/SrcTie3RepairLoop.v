(* SrcTie3RepairLoop.v — Tie A, level 1 for the REPAIR loop, part 2: the 'read_block loop arm by
   arm, the clean-up `for`, `finalize`, the returned status, and the simulation theorem
   `convert_to_archive_sim` between gen/Src3r.v (translated from /repo on every run) and
   `Repair.repair`.  See SrcTie3Repair.v for the premises and the trusted link. *)
From MLA Require Import Limit.
From MLA Require Import Base Stream Blocks Writer Repair SrcTie2 RepairProofs3 SrcTie3Repair.
From MLA Require SrcTie3Block.
From MLAGen Require Src Src2 Src3b Src3r.
From Coq Require Import ZifyBool ZifyNat ZifyN Lia.
Open Scope N_scope.

(* the maps that are only looked up are related by their lookups *)
Definition lookup_eq {V} (m1 m2 : list (N * V)) : Prop := forall k, Src2.hm_get m1 k = assoc m2 k.
Lemma lookup_eq_insert {V} (m1 m2 : list (N * V)) k v : lookup_eq m1 m2 -> lookup_eq (Src2.hm_insert m1 k v) (assoc_set m2 k v).
Proof. intros Hm k'. now rewrite hm_get_insert, assoc_set_spec, Hm. Qed.
Lemma lookup_eq_set {V} (m1 m2 : list (N * V)) k v x : lookup_eq m1 m2 -> Src2.hm_get m1 k = Some x ->
  lookup_eq (Src2.hm_set m1 k v) (assoc_set m2 k v).
Proof. intros Hm Hg k'. now rewrite (hm_get_set _ _ _ _ _ Hg), assoc_set_spec, Hm. Qed.
Lemma lookup_eq_remove {V} (m1 m2 : list (N * V)) k : lookup_eq m1 m2 -> NoDup (map fst m1) ->
  lookup_eq (Src2.hm_remove m1 k) (assoc_del m2 k).
Proof. intros Hm Hnd k'. now rewrite (hm_get_remove _ _ _ Hnd), assoc_del_spec, Hm. Qed.

(* FailSafeReadError (with payloads) against the model's status *)
Fixpoint abs_status (e : Src3r.FailSafeReadError) : fstatus :=
  match e with
  | Src3r.NoError => FNoError | Src3r.UnexpectedEOFOnNextBlock => FEofNextBlock
  | Src3r.IOErrorOnNextBlock _ => FIoNextBlock | Src3r.ErrorOnNextBlock _ => FErrNextBlock
  | Src3r.ErrorInFile _ _ => FErrInFile | Src3r.ArchiveFileIDReuse _ => FIdReuse
  | Src3r.FilenameReuse _ => FNameReuse | Src3r.ArchiveFileIDAlreadyClose _ => FIdClosed
  | Src3r.ContentForUnknownFile _ => FContentUnknown | Src3r.EOFForUnknownFile _ => FEofUnknown
  | Src3r.UnfinishedFiles _ e' => abs_status e' | Src3r.EndOfOriginalArchiveData => FEndOfData
  | Src3r.FailSafeReadInternalError => FInternal | Src3r.HashDiffers _ _ => FHashDiffers
  end.
Definition plain (e : Src3r.FailSafeReadError) : Prop := match e with Src3r.UnfinishedFiles _ _ => False | _ => True end.
(* what the caller reads off the returned value: (stopping status, unfinished names) *)
Definition status_of (e : Src3r.FailSafeReadError) : fstatus * list bytes :=
  match e with Src3r.UnfinishedFiles fs e' => (abs_status e', fs) | _ => (abs_status e, []) end.

Section Loop.
  Context {LIM : Limit}.
  Variables FNMAX CACHE : N.
  Variables T_START T_CONTENT T_EOA T_EOF : N.
  Variable H : bytes -> bytes.
  Variable S : Stream.
  Hypothesis HCACHE : 0 < CACHE.
  Hypothesis Hbound : RdBounded S.

  (* ArchiveFileBlock::from(&mut self.src) is the TRANSLATED block parser of gen/Src3b.v (work package
     blockT; it used to be Blocks.parse_block, "the trusted link").  The translated `from` yields the
     value as a Blocks.pblock; `pb_to_block` renders it in the type gen/Src2.v gives the same Rust enum
     (variant by variant, field by field; `data: None`).  SrcTie3Block.block_from_src makes it the model's
     parser in the three lemmas below, which is all the proofs of this file use. *)
  Definition pb_to_block (pb : pblock) : Src2.Block :=
    match pb with
    | PStart id name => Src2.BkFileStart name id | PContent id l => Src2.BkFileContent id l None
    | PEof id h => Src2.BkEndOfFile id h | PEnd => Src2.BkEndOfArchiveData
    end.
  Definition block_from (s : st S) : st S * res Src2.Block :=
    match Src3b.ArchiveFileBlock_from S FNMAX T_START T_CONTENT T_EOA T_EOF 636 s with
    | (s', Ok pb) => (s', Ok (pb_to_block pb)) | (s', Err e) => (s', Err e) | (s', Crash c) => (s', Crash c)
    end.

  Notation mkL := (Src3r.mkL S).
  Notation g_loop := (Src3r.loop_read_block FNMAX CACHE T_START T_CONTENT T_EOA T_EOF H S block_from).
  Notation m_loop := (block_loop FNMAX CACHE T_START T_CONTENT T_EOA T_EOF H S).
  Notation g_for := (Src3r.for_id_failsafe2id_output FNMAX T_START T_CONTENT T_EOA T_EOF H S).
  Notation m_cleanup := (cleanup T_START T_CONTENT T_EOA T_EOF H S).
  Notation g_conv := (Src3r.convert_to_archive FNMAX CACHE T_START T_CONTENT T_EOA T_EOF H
                        (footer_ser (fun f => f)) (fun _ => Ok tt) S block_from).
  Notation m_repair := (repair FNMAX CACHE T_START T_CONTENT T_EOA T_EOF H S).

  (* the state in which 'read_block is left by a `break` *)
  Definition EndRel (l : Src3r.Locals S) (st : rpstate S) (status : fstatus) (unf : list bytes) : Prop :=
    Src3r.l_id_failsafe2id_output S l = rp_ids S st /\ lookup_eq (Src3r.l_id_failsafe2filename S l) (rp_names S st) /\
    Src3r.l_id_failsafe_done S l = rp_done S st /\ absW (Src3r.l_output S l) = rp_out S st /\ RInv (Src3r.l_output S l) /\
    abs_status (Src3r.l_error S l) = status /\ plain (Src3r.l_error S l) /\ Src3r.l_unfinished_files S l = unf.

  (* call-by-value evaluation of the record updates (the generated let-chains duplicate their Locals) *)
  Ltac lcbv := cbv beta iota zeta delta [Src3r.set_src Src3r.set_output Src3r.set_error Src3r.set_id_failsafe2id_output
    Src3r.set_id_failsafe2filename Src3r.set_id_failsafe_done Src3r.set_id_failsafe2hash Src3r.set_unfinished_files
    Src3r.set_src_limit Src3r.set_buf Src3r.set_next_write_pos
    Src3r.l_src Src3r.l_output Src3r.l_error Src3r.l_id_failsafe2id_output Src3r.l_id_failsafe2filename
    Src3r.l_id_failsafe_done Src3r.l_id_failsafe2hash Src3r.l_unfinished_files Src3r.l_src_limit Src3r.l_buf
    Src3r.l_next_write_pos].
  Ltac er1 := first [reflexivity | assumption | exact I | solve [auto using lookup_eq_insert]].
  Ltac endrel := unfold EndRel; lproj; cbn [rp_ids rp_names rp_done rp_out abs_status plain];
    repeat (split; [er1|]); er1.
  Ltac done_ok := eexists; split; [reflexivity | endrel].

  (* ---------- one lemma per arm; `Hrec` is the induction hypothesis on the remaining fuel ---------- *)
  Definition LoopConc (fuel : nat) src out ids names done hash unf lim buf nwp mnames mhash : Prop :=
    match m_loop fuel (mkRP S src (absW out) ids mnames done mhash) with
    | (st', Ok status) => exists l', g_loop fuel (mkL src out Src3r.NoError ids names done hash unf lim buf nwp) = (l', Src3r.ODone) /\
                                     EndRel l' st' status unf
    | (_, Err e) => exists l', g_loop fuel (mkL src out Src3r.NoError ids names done hash unf lim buf nwp) = (l', Src3r.OReturn (Err e))
    | (_, Crash c) => exists l' c', g_loop fuel (mkL src out Src3r.NoError ids names done hash unf lim buf nwp) = (l', Src3r.OReturn (Crash c'))
    end.
  Definition LoopSpec (fuel : nat) : Prop :=
    forall src out ids names done hash unf lim buf nwp mnames mhash,
    RInv out -> lookup_eq names mnames -> lookup_eq hash mhash -> NoDup (map fst hash) ->
    LoopConc fuel src out ids names done hash unf lim buf nwp mnames mhash.

  Notation parse_block := (parse_block FNMAX T_START T_CONTENT T_EOA T_EOF S).
  Notation w_start := (w_start FNMAX T_START T_CONTENT T_EOA T_EOF).
  Notation w_end := (w_end T_START T_CONTENT T_EOA T_EOF H).

  Lemma block_from_ok s s1 pb : parse_block s = (s1, Ok pb) -> block_from s = (s1, Ok (pb_to_block pb)).
  Proof. intros Hp. unfold block_from. now rewrite SrcTie3Block.block_from_src, Hp. Qed.
  Lemma block_from_err s s1 e : parse_block s = (s1, Err e) -> block_from s = (s1, Err e).
  Proof. intros Hp. unfold block_from. now rewrite SrcTie3Block.block_from_src, Hp. Qed.
  Lemma block_from_crash s s1 c : parse_block s = (s1, Crash c) -> block_from s = (s1, Crash c).
  Proof. intros Hp. unfold block_from. now rewrite SrcTie3Block.block_from_src, Hp. Qed.
  Ltac enter Hp := unfold LoopConc; cbn [block_loop rp_src rp_out rp_ids rp_names rp_done rp_hash]; rewrite Hp;
    cbn [Src3r.loop_read_block Src3r.l_src];
    first [rewrite (block_from_ok _ _ _ Hp) | rewrite (block_from_err _ _ _ Hp) | rewrite (block_from_crash _ _ _ Hp)];
    cbn [pb_to_block rp_src rp_out rp_ids rp_names rp_done rp_hash]; lcbv.

  (* parse errors *)
  Lemma arm_parse_err fuel src out ids names done hash unf lim buf nwp mnames mhash s1 e :
    parse_block src = (s1, Err e) -> RInv out -> lookup_eq names mnames ->
    LoopConc (Datatypes.S fuel) src out ids names done hash unf lim buf nwp mnames mhash.
  Proof. intros Hp HR Hn. enter Hp. destruct e; cbn [Src3r.error_is_io Src3r.io_kind_is_unexpected_eof rp_src rp_out rp_ids rp_names rp_done rp_hash]; lproj; done_ok. Qed.
  Lemma arm_parse_crash fuel src out ids names done hash unf lim buf nwp mnames mhash s1 c :
    parse_block src = (s1, Crash c) ->
    LoopConc (Datatypes.S fuel) src out ids names done hash unf lim buf nwp mnames mhash.
  Proof. intros Hp. enter Hp. eexists; eexists; reflexivity. Qed.

  (* FileStart *)
  Lemma arm_start fuel (Hrec : LoopSpec fuel) src out ids names done hash unf lim buf nwp mnames mhash s1 id name :
    parse_block src = (s1, Ok (PStart id name)) ->
    RInv out -> lookup_eq names mnames -> lookup_eq hash mhash -> NoDup (map fst hash) ->
    LoopConc (Datatypes.S fuel) src out ids names done hash unf lim buf nwp mnames mhash.
  Proof.
    intros Hp HR Hn Hh Hnd. enter Hp. rewrite existsb_assoc, <- hm_get_assoc, vec_contains_mem.
    destruct (Src2.hm_get ids id) as [x|] eqn:Eid; [done_ok|].
    destruct (mem done id); [done_ok|].
    pose proof (start_file_sim FNMAX T_START T_CONTENT T_EOA T_EOF H out name HR) as Hs.
    destruct (Src2.start_file FNMAX T_START T_CONTENT T_EOA T_EOF out name) as [o r]. destruct Hs as (Ha & Hr & Hi).
    destruct (w_start (absW out) name) as [out1 rw]. cbn [fst snd] in Ha, Hr. subst rw out1.
    destruct r as [idn|e|c].
    - lproj. replace (Src2.hm_insert ids id idn) with (ids ++ [(id, idn)])
        by (unfold Src2.hm_insert, Src2.hm_contains_key; now rewrite Eid).
      apply Hrec; auto using lookup_eq_insert, NoDup_hm_insert.
    - destruct e; lproj; try (eexists; reflexivity). done_ok.
    - eexists; eexists; reflexivity.
  Qed.

  (* EndOfArchiveData *)
  Lemma arm_end fuel src out ids names done hash unf lim buf nwp mnames mhash s1 :
    parse_block src = (s1, Ok PEnd) -> RInv out -> lookup_eq names mnames ->
    LoopConc (Datatypes.S fuel) src out ids names done hash unf lim buf nwp mnames mhash.
  Proof. intros Hp HR Hn. enter Hp. done_ok. Qed.

  (* EndOfFile *)
  Lemma arm_eof fuel (Hrec : LoopSpec fuel) src out ids names done hash unf lim buf nwp mnames mhash s1 id h :
    parse_block src = (s1, Ok (PEof id h)) ->
    RInv out -> lookup_eq names mnames -> lookup_eq hash mhash -> NoDup (map fst hash) ->
    LoopConc (Datatypes.S fuel) src out ids names done hash unf lim buf nwp mnames mhash.
  Proof.
    intros Hp HR Hn Hh Hnd. enter Hp. rewrite <- (hm_get_assoc ids id), vec_contains_mem, <- (Hh id).
    destruct (Src2.hm_get ids id) as [id_out|] eqn:Eid. 2:{ done_ok. }
    destruct (mem done id); [done_ok|].
    destruct (Src2.hm_get hash id) as [hashed|] eqn:Eh; [|done_ok]. lproj.
    destruct (negb (bytes_eqb (H hashed) h)); [done_ok|].
    pose proof (end_file_sim FNMAX T_START T_CONTENT T_EOA T_EOF H out id_out HR) as Hs.
    destruct (Src2.end_file FNMAX T_START T_CONTENT T_EOA T_EOF H out id_out) as [o r]. destruct Hs as (Ha & Hr & Hi).
    destruct (w_end (absW out) id_out) as [out1 rw]. cbn [fst snd] in Ha, Hr. subst rw out1.
    destruct r as [u|e|c]; cbn [resu]; lproj.
    - apply Hrec; auto using lookup_eq_remove, NoDup_hm_remove.
    - eexists; reflexivity.
    - eexists; eexists; reflexivity.
  Qed.

  (* FileContent *)
  Lemma arm_content fuel (Hrec : LoopSpec fuel) src out ids names done hash unf lim buf nwp mnames mhash s1 id blen :
    parse_block src = (s1, Ok (PContent id blen)) ->
    RInv out -> lookup_eq names mnames -> lookup_eq hash mhash -> NoDup (map fst hash) ->
    LoopConc (Datatypes.S fuel) src out ids names done hash unf lim buf nwp mnames mhash.
  Proof.
    intros Hp HR Hn Hh Hnd. enter Hp. rewrite <- (hm_get_assoc ids id), vec_contains_mem, <- (Hn id), <- (Hh id).
    destruct (Src2.hm_get ids id) as [id_out|] eqn:Eid; [|done_ok].
    destruct (mem done id); [done_ok|].
    destruct (Src2.hm_get names id) as [fname|] eqn:En; [|eexists; eexists; reflexivity].
    destruct (Src2.hm_get hash id) as [hashed|] eqn:Eh; [|eexists; eexists; reflexivity]. lproj.
    destruct (content_loop CACHE T_CONTENT S (Datatypes.S fuel) s1 (absW out) id_out blen []) as [[[[s2 out2] got'] rerr] werr] eqn:Ecl.
    destruct (content_sim FNMAX CACHE T_START T_CONTENT T_EOA T_EOF H S HCACHE Hbound (Datatypes.S fuel)
                (Src2.BkFileContent id blen None) id blen id_out fname s1 out ids names done hash unf blen
                (Src3r.vec_zeros CACHE) nwp [] hashed s2 out2 got' rerr werr (len_vec_zeros CACHE) HR Eh Ecl) as (delta & Hgot & Hres).
    cbn [app] in Hgot. subst got'.
    destruct werr as [we|].
    { destruct Hres as (l' & Eg). rewrite Eg. destruct rerr; eexists; reflexivity. }
    destruct rerr as [re|]; destruct Hres as (o' & lim' & buf' & nwp' & Ha & Hi & Eg); rewrite Eg; subst out2.
    - eexists; split; [reflexivity|]. unfold EndRel; lproj; cbn [rp_ids rp_names rp_done rp_out abs_status plain].
      repeat (split; [er1|]); er1.
    - apply Hrec; [exact Hi | exact Hn | eapply lookup_eq_set; eassumption | now rewrite hm_set_fst].
  Qed.

  Theorem loop_sim fuel : LoopSpec fuel.
  Proof.
    induction fuel as [|fuel IH]; intros src out ids names done hash unf lim buf nwp mnames mhash HR Hn Hh Hnd.
    - unfold LoopConc. cbn [block_loop Src3r.loop_read_block]. eexists; reflexivity.
    - destruct (parse_block src) as [s1 [pb|e|c]] eqn:Hp.
      + destruct pb as [id name|id blen|id h|].
        * eapply arm_start; eassumption.
        * eapply arm_content; eassumption.
        * eapply arm_eof; eassumption.
        * eapply arm_end; eassumption.
      + eapply arm_parse_err; eassumption.
      + eapply arm_parse_crash; eassumption.
  Qed.

  (* ---------- the clean-up of the files still open ---------- *)
  Lemma cleanup_sim items : forall src out err ids names done hash unf lim buf nwp msrc mout mids mnames mhash,
    RInv out -> lookup_eq names mnames ->
    match m_cleanup items (mkRP S msrc mout mids mnames done mhash) (absW out) unf with
    | Ok (out1, unf') => exists o', g_for items (mkL src out err ids names done hash unf lim buf nwp) =
                                    (mkL src o' err ids names done hash unf' lim buf nwp, Src3r.ODone) /\ absW o' = out1 /\ RInv o'
    | Err e => exists l', g_for items (mkL src out err ids names done hash unf lim buf nwp) = (l', Src3r.OReturn (Err e))
    | Crash c => exists l' c', g_for items (mkL src out err ids names done hash unf lim buf nwp) = (l', Src3r.OReturn (Crash c'))
    end.
  Proof.
    induction items as [|[idf ido] rest IH]; intros src out err ids names done hash unf lim buf nwp msrc mout mids mnames mhash HR Hn.
    - cbn [cleanup Src3r.for_id_failsafe2id_output]. exists out. split; [reflexivity|]. split; [reflexivity | exact HR].
    - cbn [cleanup Src3r.for_id_failsafe2id_output rp_done rp_names]. lproj. rewrite vec_contains_mem, <- (Hn idf).
      destruct (mem done idf); [apply IH; assumption|].
      destruct (Src2.hm_get names idf) as [fname|]; [|eexists; eexists; reflexivity].
      pose proof (end_file_sim FNMAX T_START T_CONTENT T_EOA T_EOF H out ido HR) as Hs.
      destruct (Src2.end_file FNMAX T_START T_CONTENT T_EOA T_EOF H out ido) as [o r]. destruct Hs as (Ha & Hr & Hi).
      destruct (w_end (absW out) ido) as [out1 rw]. cbn [fst snd] in Ha, Hr. subst rw out1.
      destruct r as [u|e|c]; cbn [resu]; lproj.
      + apply IH; assumption.
      + eexists; reflexivity.
      + eexists; eexists; reflexivity.
  Qed.

  (* ---------- the whole function ---------- *)
  Theorem convert_to_archive_sim fuel s0 out0 : RInv out0 ->
    match m_repair fuel s0 (absW out0) with
    | Ok (status, unfinished, out2) =>
      exists l e, g_conv fuel s0 out0 = (l, Ok e) /\ status_of e = (status, unfinished) /\
                  absW (Src3r.l_output S l) = out2 /\ RInv (Src3r.l_output S l)
    | Err e => exists l, g_conv fuel s0 out0 = (l, Err e)
    | Crash c => exists l c', g_conv fuel s0 out0 = (l, Crash c')
    end.
  Proof.
    intros HR. unfold repair, Src3r.convert_to_archive. lcbv.
    pose proof (loop_sim fuel s0 out0 [] [] [] [] [] 0 [] 0 [] [] HR (fun k => eq_refl) (fun k => eq_refl) (NoDup_nil _)) as Hl.
    unfold LoopConc in Hl.
    destruct (m_loop fuel (mkRP S s0 (absW out0) [] [] [] [])) as [st' [status|e|c]].
    2:{ destruct Hl as (l' & Eg). rewrite Eg. eexists; reflexivity. }
    2:{ destruct Hl as (l' & c' & Eg). rewrite Eg. eexists; eexists; reflexivity. }
    destruct Hl as (l' & Eg & Hids & Hnames & Hdone & Hout & Hinv & Hst & Hpl & Hunf). rewrite Eg.
    destruct l' as [src1 out1 err1 ids1 names1 done1 hash1 unf1 lim1 buf1 nwp1].
    destruct st' as [msrc mout mids mnames mdone mhash].
    cbn [Src3r.l_id_failsafe2id_output Src3r.l_id_failsafe2filename Src3r.l_id_failsafe_done Src3r.l_output Src3r.l_error
         Src3r.l_unfinished_files rp_ids rp_names rp_done rp_out] in *. lproj. subst mids mdone mout unf1.
    pose proof (cleanup_sim ids1 src1 out1 err1 ids1 names1 done1 hash1 [] lim1 buf1 nwp1 msrc (absW out1) ids1 mnames mhash Hinv Hnames) as Hc.
    destruct (m_cleanup ids1 (mkRP S msrc (absW out1) ids1 mnames done1 mhash) (absW out1) []) as [[out2 unf2]|e|c].
    2:{ destruct Hc as (l2 & Ec). rewrite Ec. eexists; reflexivity. }
    2:{ destruct Hc as (l2 & c' & Ec). rewrite Ec. eexists; eexists; reflexivity. }
    destruct Hc as (o2 & Ec & Ha2 & Hi2). rewrite Ec. lproj. subst out2.
    pose proof (finalize_sim FNMAX T_START T_CONTENT T_EOA T_EOF (fun f => f) o2 Hi2) as Hf.
    destruct (Src2.finalize FNMAX T_START T_CONTENT T_EOA T_EOF (footer_ser (fun f => f)) (fun _ => Ok tt) o2) as [o3 r3].
    destruct Hf as (Ha3 & Hr3 & Hi3).
    destruct (w_finalize_with T_START T_CONTENT T_EOA T_EOF (fun f => f) (absW o2)) as [out3 rw]. cbn [fst snd] in Ha3, Hr3. subst rw out3.
    destruct unf2 as [|n2 unf2]; cbn [Src2.is_empty negb]; lproj; destruct r3 as [u|e|c]; cbn [resu]; lproj;
      try (eexists; reflexivity); try (eexists; eexists; reflexivity).
    - eexists; eexists; split; [reflexivity|]. lproj. split; [|split; [reflexivity | exact Hi3]].
      destruct err1; cbn [plain] in Hpl; try contradiction; cbn [status_of abs_status] in *; now rewrite Hst.
    - eexists; eexists; split; [reflexivity|]. lproj. split; [|split; [reflexivity | exact Hi3]].
      cbn [status_of]. now rewrite Hst.
  Qed.

  (* the same statement read from the translated function's side *)
  Corollary convert_to_archive_sim_ok fuel s0 out0 l e : RInv out0 -> g_conv fuel s0 out0 = (l, Ok e) ->
    m_repair fuel s0 (absW out0) = Ok (fst (status_of e), snd (status_of e), absW (Src3r.l_output S l)).
  Proof.
    intros HR Hg. pose proof (convert_to_archive_sim fuel s0 out0 HR) as Hs.
    destruct (m_repair fuel s0 (absW out0)) as [[[st u] o]|e'|c].
    - destruct Hs as (l2 & e2 & Eg & Hst & Ho & _). rewrite Eg in Hg. injection Hg as -> ->. now rewrite Hst, Ho.
    - destruct Hs as (l2 & Eg). rewrite Eg in Hg. discriminate.
    - destruct Hs as (l2 & c' & Eg). rewrite Eg in Hg. discriminate.
  Qed.
  Corollary convert_to_archive_sim_err fuel s0 out0 l e : RInv out0 -> g_conv fuel s0 out0 = (l, Err e) ->
    m_repair fuel s0 (absW out0) = Err e.
  Proof.
    intros HR Hg. pose proof (convert_to_archive_sim fuel s0 out0 HR) as Hs.
    destruct (m_repair fuel s0 (absW out0)) as [[[st u] o]|e'|c].
    - destruct Hs as (l2 & e2 & Eg & _). rewrite Eg in Hg. discriminate.
    - destruct Hs as (l2 & Eg). rewrite Eg in Hg. now injection Hg as _ ->.
    - destruct Hs as (l2 & c' & Eg). rewrite Eg in Hg. discriminate.
  Qed.
  (* a panic of the translated function is a Crash of the model (the sites are not compared) *)
  Corollary convert_to_archive_sim_crash fuel s0 out0 l c : RInv out0 -> g_conv fuel s0 out0 = (l, Crash c) ->
    exists c', m_repair fuel s0 (absW out0) = Crash c'.
  Proof.
    intros HR Hg. pose proof (convert_to_archive_sim fuel s0 out0 HR) as Hs.
    destruct (m_repair fuel s0 (absW out0)) as [[[st u] o]|e'|c'].
    - destruct Hs as (l2 & e2 & Eg & _). rewrite Eg in Hg. discriminate.
    - destruct Hs as (l2 & Eg). rewrite Eg in Hg. discriminate.
    - now exists c'.
  Qed.
End Loop.

(* ---------- work package blockT: the whole repair path translated ---------- *)
(* the block parser handed to the translated `convert_to_archive` IS the translated `ArchiveFileBlock::from`
   (gen/Src3b.v), its value rendered in gen/Src2.v's Block type *)
Lemma block_from_is_translated FNMAX T_START T_CONTENT T_EOA T_EOF S s :
  block_from FNMAX T_START T_CONTENT T_EOA T_EOF S s =
  match Src3b.ArchiveFileBlock_from S FNMAX T_START T_CONTENT T_EOA T_EOF 636 s with
  | (s', Ok pb) => (s', Ok (pb_to_block pb)) | (s', Err e) => (s', Err e) | (s', Crash c) => (s', Crash c)
  end.
Proof. reflexivity. Qed.
(* ... and is the model's parser (what used to be assumed) *)
Lemma block_from_is_model FNMAX T_START T_CONTENT T_EOA T_EOF S s :
  block_from FNMAX T_START T_CONTENT T_EOA T_EOF S s =
  match parse_block FNMAX T_START T_CONTENT T_EOA T_EOF S s with
  | (s', Ok pb) => (s', Ok (pb_to_block pb)) | (s', Err e) => (s', Err e) | (s', Crash c) => (s', Crash c)
  end.
Proof. unfold block_from. now rewrite SrcTie3Block.block_from_src. Qed.
Theorem convert_to_archive_sim_full {LIM : Limit} FNMAX CACHE T_START T_CONTENT T_EOA T_EOF H S :
  0 < CACHE -> RdBounded S -> forall fuel s0 out0, RInv out0 ->
  let g_conv := Src3r.convert_to_archive FNMAX CACHE T_START T_CONTENT T_EOA T_EOF H (footer_ser (fun f => f)) (fun _ => Ok tt) S
                  (fun s => match Src3b.ArchiveFileBlock_from S FNMAX T_START T_CONTENT T_EOA T_EOF 636 s with
                            | (s', Ok pb) => (s', Ok (pb_to_block pb)) | (s', Err e) => (s', Err e) | (s', Crash c) => (s', Crash c)
                            end) in
  match repair FNMAX CACHE T_START T_CONTENT T_EOA T_EOF H S fuel s0 (absW out0) with
  | Ok (status, unfinished, out2) =>
    exists l e, g_conv fuel s0 out0 = (l, Ok e) /\ status_of e = (status, unfinished) /\
                absW (Src3r.l_output S l) = out2 /\ RInv (Src3r.l_output S l)
  | Err e => exists l, g_conv fuel s0 out0 = (l, Err e)
  | Crash c => exists l c', g_conv fuel s0 out0 = (l, Crash c')
  end.
Proof. intros HC HB fuel s0 out0 HR. exact (convert_to_archive_sim FNMAX CACHE T_START T_CONTENT T_EOA T_EOF H S HC HB fuel s0 out0 HR). Qed.

(* the writer `ArchiveWriter::from_config` builds *)
Definition aw_init : Src2.ArchiveWriter := Src2.mkAW [] (Src2.OpenedFiles [] []) [] [] 0 0.
Theorem convert_to_archive_sim_init {LIM : Limit} FNMAX CACHE T_START T_CONTENT T_EOA T_EOF H S :
  0 < CACHE -> RdBounded S -> forall fuel s0,
  match repair FNMAX CACHE T_START T_CONTENT T_EOA T_EOF H S fuel s0 w_init with
  | Ok (status, unfinished, out2) =>
    exists l e, Src3r.convert_to_archive FNMAX CACHE T_START T_CONTENT T_EOA T_EOF H (footer_ser (fun f => f)) (fun _ => Ok tt) S
                  (block_from FNMAX T_START T_CONTENT T_EOA T_EOF S) fuel s0 aw_init = (l, Ok e) /\
                status_of e = (status, unfinished) /\ absW (Src3r.l_output S l) = out2
  | Err e => exists l, Src3r.convert_to_archive FNMAX CACHE T_START T_CONTENT T_EOA T_EOF H (footer_ser (fun f => f)) (fun _ => Ok tt) S
                  (block_from FNMAX T_START T_CONTENT T_EOA T_EOF S) fuel s0 aw_init = (l, Err e)
  | Crash c => exists l c', Src3r.convert_to_archive FNMAX CACHE T_START T_CONTENT T_EOA T_EOF H (footer_ser (fun f => f)) (fun _ => Ok tt) S
                  (block_from FNMAX T_START T_CONTENT T_EOA T_EOF S) fuel s0 aw_init = (l, Crash c')
  end.
Proof.
  intros HC HB fuel s0. destruct RInv_init as (HR & HA). fold aw_init in HR, HA.
  pose proof (convert_to_archive_sim FNMAX CACHE T_START T_CONTENT T_EOA T_EOF H S HC HB fuel s0 aw_init HR) as Hs.
  rewrite HA in Hs. destruct (repair FNMAX CACHE T_START T_CONTENT T_EOA T_EOF H S fuel s0 w_init) as [[[st u] o]|e|c]; [|exact Hs|exact Hs].
  destruct Hs as (l & e & Eg & Hst & Ho & _). now exists l, e.
Qed.

(* non-vacuity: a two-block archive cut inside its second content block, cache of 4 bytes (two
   rounds of 'content, several of 'buf_fill), read from a cursor: the translated function ends with
   UnfinishedFiles { ["a"], UnexpectedEOFOnNextBlock } and recovers the 7 bytes *)
Definition ex_src : bytes :=
  [0] ++ le64 5 ++ le64 1 ++ [97] ++ [1] ++ le64 5 ++ le64 5 ++ [1; 2; 3; 4; 5] ++ [1] ++ le64 5 ++ le64 9 ++ [6; 7].
Example convert_to_archive_sim_nonvacuous :
  RdBounded (Cursor ex_src) /\
  exists l, Src3r.convert_to_archive 48 4 0 1 254 255 (fun _ => repeat 0 32)
              (footer_ser (LIM := MLAGen.Src.BINCODE_MAX_DESERIALIZE_prod) (fun f => f)) (fun _ => Ok tt) (Cursor ex_src)
              (block_from 48 0 1 254 255 (Cursor ex_src)) 20 0 aw_init
            = (l, Ok (Src3r.UnfinishedFiles [[97]] Src3r.UnexpectedEOFOnNextBlock)) /\
            w_files (absW (Src3r.l_output _ l)) = [([97], 0)] /\
            option_map fi_size (alookup (w_ids (absW (Src3r.l_output _ l))) 0) = Some 7.
Proof. split; [apply RdBounded_cursor|]. eexists. split; [vm_compute; reflexivity|]. vm_compute. split; reflexivity. Qed.
