(* ComposeThrottled.v — C13 for layered sources: the reader stack of ArchiveReader::from_config
   (compression over encryption over raw) over a THROTTLED source (every read returns at most
   the next entry of an arbitrary schedule, at least one byte) refines a cursor over the same
   plaintext as over an in-memory cursor, opens the same way, and so `read_full` / `read_exact`
   on top of it return the same bytes whatever the schedule.  Corollary of LayerStack.v and
   Stream.throttled_refines. *)
From MLA Require Import Limit.
From MLA Require Import Base Stream EncLayer EncLayerProofs CompLayer CompLayerProofs RawLayer RawLayerProofs LayerStack.
From Coq Require Import ZifyBool ZifyNat ZifyN.
Open Scope N_scope.

Section StackThrottled.
  Variables CHUNK TAG BLOCK LIMIT : N.
  Local Hint Extern 0 Limit => exact LIMIT : typeclass_instances.
  Hypothesis HCHUNK : 0 < CHUNK.
  Hypothesis HTAG : 0 < TAG.
  Hypothesis Hsz : CHUNK + TAG <= 2 ^ 31.       (* LayerStack: the u64 / i64 ranges of the encryption reader's seek *)
  Hypothesis HB : 0 < BLOCK.
  Hypothesis HB32 : BLOCK < 2 ^ 32.
  Variable ks : N -> N -> N.
  Variable tagc : N -> bytes -> bytes.
  Hypothesis Htagc : forall i c, len (tagc i c) = TAG.
  Variables comp dec : bytes -> bytes.
  Hypothesis Hcomp : forall x, dec (comp x) = x.
  Variables header plain : bytes.
  Variable nb : N.
  Hypothesis Hnb : (nb - 1) * BLOCK <= len plain /\ len plain <= nb * BLOCK.
  Hypothesis Hcs : forall j, j < nb -> len (comp (block_at BLOCK plain j)) < 2 ^ 32.
  Hypothesis Hlim : 12 + 4 * nb <= LIMIT /\ 12 + 4 * nb < 2 ^ 32.
  Hypothesis HL : len plain < 2 ^ 63.
  Notation arch := (archive CHUNK BLOCK ks tagc comp header plain nb).
  Hypothesis Hchunks : nfull CHUNK (len (compwire BLOCK comp plain nb)) + 2 < 2 ^ 32.
  Hypothesis Hlen : len arch < 2 ^ 64.

  Notation TS := (Throttled arch).
  Definition Rthr (s : st TS) (p : N) : Prop := fst s = p /\ p <= len arch.
  Notation StackT := (CompS CHUNK TAG BLOCK ks tagc dec TS).
  Notation RstackT := (Rcomp0 CHUNK TAG BLOCK ks tagc comp header plain nb TS Rthr).

  Theorem stack_over_throttled : Refines StackT plain RstackT.
  Proof.
    apply (stack_refines CHUNK TAG BLOCK LIMIT HCHUNK HTAG Hsz HB HB32 ks tagc Htagc comp dec Hcomp
             header plain nb Hnb Hlim HL Hchunks Hlen TS Rthr).
    exact (throttled_refines arch).
  Qed.

  Theorem stack_open_throttled sched :
    exists r c, raw_open TS (len header, sched) = (r, Ok tt) /\
      comp_open LIMIT (EncS CHUNK TAG ks tagc TS) (enc_initialize CHUNK TAG ks tagc TS)
        (@mkE (RawS TS) r [] 0 0) = (c, Ok tt) /\ RstackT c 0.
  Proof.
    apply (stack_open CHUNK TAG BLOCK LIMIT HCHUNK HTAG Hsz HB HB32 ks tagc Htagc comp dec Hcomp
             header plain nb Hnb Hcs Hlim HL Hchunks Hlen TS Rthr (throttled_refines arch)).
    split; [reflexivity|]. unfold archive. rewrite len_app. lia.
  Qed.

  (* whatever the schedule of the source: take(n).read_to_end on the opened stack returns the
     same bytes as over a cursor *)
  Theorem stack_throttled_read_full c p n fuel : RstackT c p ->
    (N.to_nat (N.min n (len plain - p)) < fuel)%nat ->
    exists c', read_full StackT fuel c n = (c', Ok (sliceN p n plain)) /\
               RstackT c' (p + N.min n (len plain - p)).
  Proof. intros HR Hf. exact (read_full_spec StackT plain RstackT stack_over_throttled fuel c p n HR Hf). Qed.
End StackThrottled.
