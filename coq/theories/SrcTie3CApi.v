(* SrcTie3CApi.v — Tie A, level 1, for the C INTERFACE (work package capiT).
   gen/Src3a.v (tools/src2v3_capi.py) holds, translated statement by statement from
   /repo/bindings/C/src/lib.rs: `impl From<MLAError> for MLAStatus` arm by arm, the callback adapters
   (CallbackOutput::write/flush, CallbackInputRead::read/seek), the eleven writing-side `extern "C"`
   functions over the handle table of CApi.v (null checks in program order, `*h = null_mut()` where it
   stands, Box::from_raw / Box::leak pairing checked on every path: DanglingHandle) and
   mla_roarchive_extract(_internal) / mla_roarchive_info(_internal) over a local memory.
   This file proves them equal to / simulated by CApi.capi_step, CApi.cb_write, CApiRead.cbin_rd,
   cbin_sk, extract_internal, roarchive_extract, roarchive_info, for ALL inputs.

   TRUSTED PRIMITIVE TABLE = [model_prims] (writing side) and the instantiation of the Section
   variables r_* in [extract_internal_src] / [roarchive_info_src] (reading side): the LIBRARY calls are
   the model's (Writer.wstep under the per-call environment `io`, the configuration arithmetic,
   CApiRead.from_config_G, Reader.linear_extract + deliver, read_header_S); what is translated and
   proved is the control logic around them.  The pointer abstraction is listed in tools/src2v3_capi.py. *)
From MLA Require Import Limit.
From MLA Require Import Base Stream Blocks Writer Reader CApi CApiProofs CApiRead CApiReadProofs.
From MLAGen Require Import Src3a.
From Coq Require Import ZifyBool ZifyNat ZifyN.
Open Scope N_scope.

(* ====================================================================== the status map *)
(* the writer model's errors as mla::errors::Error values (fin: raised by finalize) *)
Definition mla_of_err (fin : bool) (e : err) : MLAError :=
  match e with
  | EState => if fin then ME_WrongWriterState else ME_WrongArchiveWriterState
  | ENameTooLong => ME_FilenameTooLong
  | EDup => ME_DuplicateFilename
  | _ => ME_IOError
  end.
Definition mla_of_phase (ph : phase) : MLAError :=
  match ph with PhSer => ME_SerializationError | _ => ME_IOError end.
(* the reader model's errors *)
Definition mla_of_rerr (e : err) : MLAError :=
  match e with
  | EIo | EUnexpectedEof | EInval | EShortSource | EWrongTag | EEos => ME_IOError
  | EDeser => ME_DeserializationError
  | EState => ME_WrongReaderState
  | ENameTooLong => ME_FilenameTooLong
  | EDup => ME_DuplicateFilename
  | EMagic => ME_WrongMagic
  | EVersion => ME_UnsupportedVersion
  | EBlockType => ME_WrongBlockSubFileType
  | EUtf8 => ME_UTF8ConversionError
  | EMissingMeta => ME_MissingMetadata
  | EKey => ME_ConfigError CE_PrivateKeyNotFound
  | EFuel => ME_AssertionError
  end.

Lemma status_from_error_src fin e : status_from_error (mla_of_err fin e) = st_of_err fin e.
Proof. destruct e, fin; reflexivity. Qed.
Lemma status_from_phase_src ph : status_from_error (mla_of_phase ph) = st_of_phase ph.
Proof. destruct ph; reflexivity. Qed.
Lemma status_from_rerr_src e : status_from_error (mla_of_rerr e) = st_of_rerr e.
Proof. destruct e; reflexivity. Qed.
(* ALL arms: every variant of mla::errors::Error (ConfigError expanded), in source order *)
Lemma status_from_error_table :
  map status_from_error all_MLAError =
  [IOError; WrongMagic; UnsupportedVersion; InvalidECCKeyFormat; WrongBlockSubFileType; UTF8ConversionError;
   FilenameTooLong; WrongArchiveWriterState; AssertionError; WrongReaderState; WrongWriterState; PrivateKeyNeeded;
   DeserializationError; SerializationError; MissingMetadata; BadAPIArgument; EndOfStream;
   CfgIncoherentPersistentConfig; CfgCompressionLevelOutOfRange; CfgEncryptionKeyIsMissing; CfgPrivateKeyNotSet;
   CfgPrivateKeyNotFound; CfgECIESComputationError; DuplicateFilename; AuthenticatedDecryptionWrongTag;
   HKDFInvalidKeyLength].
Proof. reflexivity. Qed.
Lemma all_MLAError_complete e : In e all_MLAError.
Proof. destruct e as [| | | | | | | | | | | | | | | | | c | | |]; try destruct c; cbn; tauto. Qed.
Lemma status_from_error_not_success e : status_from_error e <> Success.
Proof. destruct e as [| | | | | | | | | | | | | | | | | c | | |]; try destruct c; discriminate. Qed.
Lemma status_from_error_injective e e' : status_from_error e = status_from_error e' -> e = e'.
Proof.
  destruct e as [| | | | | | | | | | | | | | | | | c | | |]; try destruct c;
  destruct e' as [| | | | | | | | | | | | | | | | | c' | | |]; try destruct c'; (reflexivity || discriminate).
Qed.
(* a right inverse on the statuses an MLAError maps to *)
Definition mla_of_status (st : status) : option MLAError :=
  find (fun e => status_code (status_from_error e) =? status_code st) all_MLAError.
Definition in_error_range (st : status) : bool := match mla_of_status st with Some _ => true | None => false end.
Lemma mla_of_status_ok st e : mla_of_status st = Some e -> status_from_error e = st.
Proof. destruct st; vm_compute; intros [= <-]; reflexivity. Qed.
Lemma error_range_is st : in_error_range st = negb (match st with Success | Curve25519ParserError => true | _ => false end).
Proof. destruct st; reflexivity. Qed.

(* ====================================================================== the adapters *)
(* one invocation of the write callback in the model's vocabulary (CApi.cbev), as (return code, *bytes_written) *)
Definition raw_of_ev (ev : cbev) (shown : N) : N * N :=
  match ev with Accept k => (0, N.min k shown) | FailCb c => (c, 0) end.
Definition wres_of (r : iores N) : wres :=
  match r with IoROk n => WOk n | IoRErr IoInterrupted => WInterrupted | _ => WErr end.

Lemma clamp_src n : (match u32_try_from n with Some m => m | None => U32_MAX - 1 end) = clamp_u32 n.
Proof. unfold u32_try_from, clamp_u32. destruct (n <? 4294967296); reflexivity. Qed.

Theorem cb_write_src ev buf :
  wres_of (CallbackOutput_write (raw_of_ev ev) (len buf)) = fst (cb_write ev buf).
Proof.
  unfold CallbackOutput_write. rewrite clamp_src. destruct ev as [k|c]; cbn [raw_of_ev cb_write fst].
  - reflexivity.
  - unfold from_raw_os_error, EINTR. destruct (c =? 0); [reflexivity|]. destruct (c =? 4); reflexivity.
Qed.
(* for EVERY behaviour of the callback: a non-zero return code is an io::Error, whatever it stored in
   *bytes_written (C20-m3 class); code 4 is the Interrupted kind that write_all retries (K20-EINTR) *)
Theorem cb_write_failure_is_error_src ret w n :
  ret <> 0 -> CallbackOutput_write (fun _ => (ret, w)) n = IoRErr (from_raw_os_error ret).
Proof. intros Hr. unfold CallbackOutput_write. apply N.eqb_neq in Hr. now rewrite Hr. Qed.
Theorem cb_write_ok_is_reported_src w n :
  CallbackOutput_write (fun _ => (0, w)) n = IoROk w.
Proof. reflexivity. Qed.
Theorem cb_flush_src ret :
  CallbackOutput_flush ret = if ret =? 0 then IoROk tt else IoRErr (from_raw_os_error ret).
Proof. reflexivity. Qed.
Lemma eintr_is_interrupted_src : from_raw_os_error EINTR = IoInterrupted /\
  forall e, from_raw_os_error e = IoInterrupted -> e = EINTR.
Proof. split; [reflexivity|]. intros e. unfold from_raw_os_error, EINTR. destruct (N.eqb_spec e 4); [auto|discriminate]. Qed.

(* what the consumer of Read::read sees: buf[..n] = what the callback stored, then what the buffer held (zeroes) *)
Definition read_view {ST} (x : ST * iores N * bytes) : ST * res bytes :=
  match x with
  | (s, IoROk n, d) => (s, Ok (takeN n (d ++ repeat 0 (N.to_nat (n - len d)))))
  | (s, IoRErr _, _) => (s, Err EIo)
  | (s, IoRPanic c, _) => (s, Crash c)
  end.
Theorem cbin_rd_src C s n : read_view (CallbackInputRead_read C s n) = cbin_rd C s n.
Proof.
  unfold CallbackInputRead_read, cbin_rd. rewrite clamp_src.
  destruct (cb_read C s (clamp_u32 n)) as [s' [[st lr] d]]. cbn. destruct (st =? 0); reflexivity.
Qed.

Definition seek_view {ST} (x : ST * iores N) : ST * res N :=
  match x with
  | (s, IoROk n) => (s, Ok n)
  | (s, IoRErr IoInvalidInput) => (s, Err EInval)
  | (s, IoRErr _) => (s, Err EIo)
  | (s, IoRPanic c) => (s, Crash c)
  end.
Theorem cbin_sk_src (C : cbsrc) (hs : bool) (s : cb_st C) (w : whence) :
  seek_view (@CallbackInputRead_seek (cb_st C) (if hs then Some (cb_seek C) else None) s w) = cbin_sk C hs s w.
Proof.
  unfold CallbackInputRead_seek, cbin_sk, cbin_call, i64_try_from, W_SET, W_CUR, W_END.
  destruct w as [n|d|d]; [destruct (n <? 2 ^ 63); [|reflexivity]| |]; destruct hs; try reflexivity;
  match goal with |- context[cb_seek C s ?o ?wh] => destruct (cb_seek C s o wh) as [s' [st np]] end;
  cbn; unfold from_raw_os_error; destruct (st =? 0); try reflexivity; destruct (st =? 4); reflexivity.
Qed.

(* ====================================================================== the writing side *)
(* states are compared slot by slot (slots are functions; the ghost history c_done is not part of the C state) *)
Definition cst_eq (s s' : cstate) : Prop :=
  forall i, c_cfg s i = c_cfg s' i /\ c_rcfg s i = c_rcfg s' i /\ c_ar s i = c_ar s' i /\ c_fh s i = c_fh s' i.
Definition sim (x y : cstate * cres) : Prop := cst_eq (fst x) (fst y) /\ snd x = snd y.
Lemma cst_eq_refl s : cst_eq s s.
Proof. intros i; auto. Qed.
Lemma cst_eq_sym s s' : cst_eq s s' -> cst_eq s' s.
Proof. intros H i. destruct (H i) as (?&?&?&?). auto. Qed.
Lemma cst_eq_trans s s' s'' : cst_eq s s' -> cst_eq s' s'' -> cst_eq s s''.
Proof. intros H H' i. destruct (H i) as (?&?&?&?), (H' i) as (?&?&?&?). repeat split; congruence. Qed.

Section Tie.
  Context {LIM : Limit}.
  Variable FNMAX : N.
  Variables T_START T_CONTENT T_EOA T_EOF : N.
  Variable H : bytes -> bytes.
  Variable order : footer -> footer.
  Notation wstep := (Writer.wstep FNMAX T_START T_CONTENT T_EOA T_EOF H order).
  Notation step := (capi_step FNMAX T_START T_CONTENT T_EOA T_EOF H order true).

  (* a writer operation as the library call sees it: the object afterwards and the Result *)
  Definition lib_wop (ar : carch) (op : wop) (io : ioev) (on_fail : wstate -> N -> wstate) : carch * lres MLAError N :=
    match wstep (a_w ar) op with
    | (w', Ok v) =>
      let silent := match op with OAppend _ size _ => size =? 0 | _ => false end in
      if silent then (ar, LOk v)
      else if a_poison ar || match io with IoOk => false | IoFail _ => true end then
        (mkA (on_fail w' v) true (a_ops ar), LErr ME_IOError)
      else (mkA w' false (a_ops ar ++ [op]), LOk v)
    | (_, Err e) => (ar, LErr (mla_of_err false e))
    | (_, Crash c) => (ar, LCrash c)
    end.
  Definition unit_res {E A} (x : carch * lres E A) : carch * lres E unit :=
    (fst x, match snd x with LOk _ => LOk tt | LErr e => LErr e | LCrash c => LCrash c end).

  (* THE TRUSTED PRIMITIVE TABLE of the writing side *)
  Definition model_prims : capi_prims := {|
    p_wcfg_new := mkWC 0 5;
    p_set_layers_default := fun cf => cf;
    p_add_public_keys := fun cf n => mkWC (wc_keys cf + n) (wc_level cf);
    p_with_compression_level := fun cf level =>
      if 11 <? level then (cf, LErr CE_CompressionLevelOutOfRange) else (mkWC (wc_keys cf) level, LOk tt);
    p_rcfg_new := mkRC 0;
    p_add_private_keys := fun cf n => mkRC (rc_keys cf + n);
    p_parse_pubkeys_pem_many := fun k => match k with KValid n => Some n | _ => None end;
    p_parse_privkey := fun k => match k with KValid _ => Some tt | _ => None end;
    p_writer_from_config := fun cf io =>
      if wc_keys cf =? 0 then LErr (ME_ConfigError CE_EncryptionKeyIsMissing)
      else match io with IoFail ph => LErr (mla_of_phase ph) | IoOk => LOk (mkA w_init false []) end;
    p_start_file := fun ar nm io => lib_wop ar (OStart nm) io unopen;
    p_append_file_content := fun ar id length data io => unit_res (lib_wop ar (OAppend id length data) io (fun w _ => w));
    p_flush := fun ar io =>
      if a_poison ar then (ar, LErr tt) else match io with IoFail _ => (ar, LErr tt) | IoOk => (ar, LOk tt) end;
    p_end_file := fun ar id io => unit_res (lib_wop ar (OEnd id) io (fun w _ => w));
    p_finalize := fun ar io =>
      match wstep (a_w ar) OFinalize with
      | (_, Err e) => (ar, LErr (mla_of_err true e))
      | (_, Crash c) => (ar, LCrash c)
      | (_, Ok _) =>
        if a_poison ar then (ar, LErr ME_IOError)
        else match io with IoFail ph => (ar, LErr (mla_of_phase ph)) | IoOk => (ar, LOk tt) end
      end
  |}.
  Notation MP := model_prims.

  Local Opaque Writer.wstep.
  Ltac slots :=
    split; [|reflexivity]; intro j; cbn; unfold sset; repeat split; try reflexivity;
    repeat match goal with |- context[?a =? ?b] => destruct (N.eqb_spec a b); subst end; congruence.
  Ltac brk :=
    repeat match goal with
           | |- context[match ?x with _ => _ end] =>
             match type of x with
             | _ => is_var x; destruct x
             | _ => let E := fresh "E" in destruct x eqn:E
             end; cbn in *; try discriminate
           end.

  Theorem mla_config_default_new_src s out :
    sim (mla_config_default_new MP s out) (step s (CConfigNew out)).
  Proof. destruct out; cbn; slots. Qed.
  Theorem mla_reader_config_new_src s out :
    sim (mla_reader_config_new MP s out) (step s (CRConfigNew out)).
  Proof. destruct out; cbn; slots. Qed.
  Theorem mla_config_add_public_keys_src s c k :
    sim (mla_config_add_public_keys MP s c k) (step s (CAddPub c k)).
  Proof.
    unfold mla_config_add_public_keys. destruct c as [|i]; cbn; [destruct k; slots|].
    destruct (c_cfg s i) as [cf|] eqn:E; cbn; [|destruct k; slots].
    destruct k as [|n|]; cbn; try slots. destruct (n =? 0); cbn; slots.
  Qed.
  Theorem mla_config_set_compression_level_src s c level :
    sim (mla_config_set_compression_level MP s c level) (step s (CSetLevel c level)).
  Proof.
    unfold mla_config_set_compression_level. destruct c as [|i]; cbn; [slots|].
    destruct (c_cfg s i) as [cf|] eqn:E; cbn; [|slots]. destruct (11 <? level); cbn; slots.
  Qed.
  Theorem mla_reader_config_add_private_key_src s c k :
    sim (mla_reader_config_add_private_key MP s c k) (step s (CAddPriv c k)).
  Proof.
    unfold mla_reader_config_add_private_key. destruct c as [|i]; cbn; [destruct k; slots|].
    destruct (c_rcfg s i) as [cf|] eqn:E; cbn; [|destruct k; slots].
    destruct k as [|n|]; cbn; slots.
  Qed.
  Theorem mla_archive_new_src s cfg wcb fcb out io :
    sim (mla_archive_new MP s cfg wcb fcb out io) (step s (CArchiveNew cfg wcb fcb out io)).
  Proof.
    unfold mla_archive_new. destruct cfg as [|ci], out as [|oi]; cbn; try slots.
    destruct wcb, fcb; cbn; try slots.
    destruct (c_cfg s ci) as [cf|] eqn:E; cbn; [|slots].
    destruct (wc_keys cf =? 0); cbn; [slots|]. destruct io as [|ph]; cbn; [slots|].
    rewrite status_from_phase_src. slots.
  Qed.

  Theorem mla_archive_file_new_src s a name out io :
    sim (mla_archive_file_new MP s a name out io) (step s (CFileNew a name out io)).
  Proof.
    unfold mla_archive_file_new. destruct a as [|i]; cbn; [destruct name, out; slots|].
    destruct (c_ar s i) as [ar|] eqn:E; cbn; [|destruct name, out; slots].
    destruct name as [nm|]; cbn; [|destruct out; slots]. destruct out as [|oi]; cbn; [slots|].
    unfold lib_wop, wcall. destruct (wstep (a_w ar) (OStart nm)) as [w' [v|e|c]]; cbn.
    - destruct (a_poison ar || match io with IoOk => false | IoFail _ => true end); cbn; slots.
    - rewrite status_from_error_src. slots.
    - slots.
  Qed.
  Theorem mla_archive_file_append_src s a f buf length io :
    sim (mla_archive_file_append MP s a f buf length io) (step s (CAppend a f buf length io)).
  Proof.
    unfold mla_archive_file_append. destruct a as [|i]; cbn; [destruct buf; slots|].
    destruct (c_ar s i) as [ar|] eqn:E; cbn; [|destruct buf; slots].
    destruct f as [|fi]; cbn; [destruct buf; slots|].
    destruct (c_fh s fi) as [id|] eqn:Ef; cbn; [|destruct buf; slots].
    destruct buf as [data|]; cbn; [|slots].
    unfold lib_wop, wcall, unit_res, from_raw_parts.
    destruct (wstep (a_w ar) (OAppend id length (takeN length data ++ repeat 0 (N.to_nat (length - len data))))) as [w' [v|e|c]]; cbn.
    - destruct (length =? 0); cbn; [slots|].
      destruct (a_poison ar || match io with IoOk => false | IoFail _ => true end); cbn; slots.
    - rewrite status_from_error_src. slots.
    - slots.
  Qed.
  Theorem mla_archive_flush_src s a io :
    sim (mla_archive_flush MP s a io) (step s (CFlush a io)).
  Proof.
    unfold mla_archive_flush. destruct a as [|i]; cbn; [slots|].
    destruct (c_ar s i) as [ar|] eqn:E; cbn; [|slots].
    destruct (a_poison ar); cbn; [slots|]. destruct io; cbn; slots.
  Qed.
  Theorem mla_archive_file_close_src s a f io :
    sim (mla_archive_file_close MP s a f io) (step s (CFileClose a f io)).
  Proof.
    unfold mla_archive_file_close. destruct a as [|i]; cbn; [destruct f; slots|].
    destruct (c_ar s i) as [ar|] eqn:E; cbn; [|destruct f; slots].
    destruct f as [|fi]; cbn; [slots|].
    destruct (c_fh s fi) as [id|] eqn:Ef; cbn; [|slots].
    unfold lib_wop, wcall, unit_res.
    destruct (wstep (a_w ar) (OEnd id)) as [w' [v|e|c]]; cbn.
    - destruct (a_poison ar || match io with IoOk => false | IoFail _ => true end); cbn; slots.
    - rewrite status_from_error_src. slots.
    - slots.
  Qed.
  (* C20-m1: the handle is cleared BEFORE finalize, on every path *)
  Theorem mla_archive_close_src s a io :
    sim (mla_archive_close MP s a io) (step s (CArchiveClose a io)).
  Proof.
    unfold mla_archive_close. destruct a as [|i]; cbn; [slots|].
    destruct (c_ar s i) as [ar|] eqn:E; cbn; [|slots].
    destruct (wstep (a_w ar) OFinalize) as [w' [v|e|c]]; cbn.
    - destruct (a_poison ar); cbn; [slots|]. destruct io as [|ph]; cbn; [slots|].
      rewrite status_from_phase_src. slots.
    - rewrite status_from_error_src. slots.
    - slots.
  Qed.
End Tie.

(* ====================================================================== the reading side *)
Lemma rerr_in_range e : in_error_range (st_of_rerr e) = true.
Proof. destruct e; reflexivity. Qed.
Lemma load_err_in_range privs e : in_error_range (st_of_load_err privs e) = true.
Proof. destruct e, privs; reflexivity. Qed.

Section ReadTie.
  Variables CHUNK TAG BLOCK LIMIT FNMAX : N.
  Local Hint Extern 0 Limit => exact LIMIT : typeclass_instances.
  Variables TS TC TA TE : N.
  Variable dh : bytes -> bytes -> bytes.
  Variable kdf : bytes -> bytes.
  Variables wdec wtag : bytes -> bytes -> bytes.
  Variable ksf : bytes -> bytes -> N -> N -> N.
  Variable tagf : bytes -> bytes -> N -> bytes -> bytes.
  Variable dec : bytes -> bytes.
  Variable C : cbsrc.
  Variable s0 : cb_st C.
  Variable decide : nat -> bytes -> fdecision.
  Variable fuel : nat.

  Notation from_config := (from_config_G CHUNK TAG BLOCK LIMIT dh kdf wdec wtag ksf tagf dec).
  Notation opened hs := (openedG CHUNK TAG BLOCK ksf tagf dec (CbIn C hs)).

  (* every status ArchiveReader::from_config returns in the model is the image of an MLAError *)
  Lemma from_config_range S (i : st S) privs stt : from_config S i privs = XRet stt -> in_error_range stt = true.
  Proof.
    unfold from_config_G.
    repeat match goal with
           | |- context[match ?x with _ => _ end] => destruct x
           end; intros [= <-]; auto using rerr_in_range, load_err_in_range.
  Qed.

  Definition lres_of_xres {A} (x : xres A) : lres MLAError A :=
    match x with
    | XOk a => LOk a
    | XRet stt => match mla_of_status stt with Some e => LErr e | None => LErr ME_AssertionError end
    | XCrash c => LCrash c
    end.

  (* THE TRUSTED PRIMITIVE TABLE of the reading side: the source built by `CallbackInputRead { .. }` is
     CbIn C has_seek at the callback state s0 *)
  Definition R_from_config (hs : bool) (_ : unit) (privs : list bytes) : lres MLAError (opened hs) :=
    lres_of_xres (from_config (CbIn C hs) s0 privs).
  Definition R_list_files (hs : bool) (m : opened hs) : lres MLAError (list bytes) :=
    match m with existT _ p r => LOk (Reader.list_files (stack_ofG CHUNK TAG BLOCK ksf tagf dec (CbIn C hs) p) r) end.
  Definition R_file_callback (tr : list bytes) (nm : bytes) : N * (bool * bool * list cbev) :=
    match decide (length tr) nm with FDecline => (1, (false, false, [])) | FAccept w f sched => (0, (w, f, sched)) end.
  Definition R_linear_extract (hs : bool) (m : opened hs) (exp : list (bytes * list cbev)) : sinkmap * lres MLAError unit :=
    match m with existT _ p r =>
      match Reader.linear_extract FNMAX TS TC TA TE (stack_ofG CHUNK TAG BLOCK ksf tagf dec (CbIn C hs) p) fuel r (map fst exp) with
      | Ok out =>
        match deliver out (sk_of exp) with
        | (m', Ok _) => (m', LOk tt)
        | (m', Err _) => (m', LErr ME_IOError)
        | (m', Crash c) => (m', LCrash c)
        end
      | Err e => (sk_of exp, LErr (mla_of_rerr e))
      | Crash c => (sk_of exp, LCrash c)
      end
    end.

  (* the loop `for fname in &iter` = CApiRead.ask: every name asked once, in order, BadAPIArgument at the
     first accepted FileWriter holding a NULL callback (the earlier names were asked) *)
  Lemma loop_src : forall names tr exp,
    mla_roarchive_extract_internal_loop R_file_callback names tr exp =
    match ask decide (length tr) names tr exp with
    | (asked, Some e) => (asked, inl e)
    | (asked, None) => (asked, inr (Ret BadAPIArgument))
    end.
  Proof.
    induction names as [|nm r IH]; intros tr exp; cbn [mla_roarchive_extract_internal_loop ask]; [reflexivity|].
    unfold R_file_callback at 1.
    assert (Hl : length (tr ++ [nm]) = Datatypes.S (length tr)) by (rewrite app_length; cbn; lia).
    destruct (decide (length tr) nm) as [|w f sched]; cbn.
    - rewrite IH, Hl. reflexivity.
    - destruct w, f; cbn; try reflexivity. rewrite IH, Hl. reflexivity.
  Qed.

  Definition xout_of {T} (cfgv : option T) (x : xoutS T) : option T * cres * list bytes * list bytes * sinkmap :=
    (match xs_cfg x with Some v => v | None => cfgv end, xs_res x, xs_asked x, xs_accepted x, xs_sinks x).
  Definition xout_m (x : xout) := (x_cfg x, x_res x, x_asked x, x_accepted x, x_sinks x).

  Notation g_internal hs := (mla_roarchive_extract_internal (list bytes) unit (opened hs) (R_from_config hs) (R_list_files hs)
                               sort_bytes R_file_callback (R_linear_extract hs)).
  Notation m_internal := (extract_internal CHUNK TAG BLOCK LIMIT FNMAX TS TC TA TE dh kdf wdec wtag ksf tagf dec).

  Theorem extract_internal_src hs (cfgv : option (list bytes)) :
    xout_of cfgv (g_internal hs (Some cfgv) tt) = xout_m (m_internal (CbIn C hs) cfgv s0 decide fuel).
  Proof.
    unfold mla_roarchive_extract_internal, extract_internal, xout_of, xout_m.
    destruct cfgv as [privs|]; cbn [is_none]; [|reflexivity].
    unfold R_from_config. destruct (from_config (CbIn C hs) s0 privs) as [[p r]|stt|c] eqn:Efc; cbn [lres_of_xres].
    - cbn [R_list_files]. rewrite loop_src. cbn [length].
      destruct (ask decide 0 _ [] []) as [asked [exp|]]; [|reflexivity].
      cbn [R_linear_extract].
      destruct (Reader.linear_extract _ _ _ _ _ _ _ _ _) as [out|e|c]; cbn.
      + destruct (deliver out (sk_of exp)) as [m [u|e|c]]; reflexivity.
      + rewrite status_from_rerr_src. reflexivity.
      + reflexivity.
    - apply from_config_range in Efc. unfold in_error_range in Efc.
      destruct (mla_of_status stt) as [e|] eqn:Em; [|discriminate].
      apply mla_of_status_ok in Em. cbn. now rewrite Em.
    - reflexivity.
  Qed.

  (* mla_roarchive_extract: config, read, seek, file callback tested in this order; the reader is built with Some(seek) *)
  Theorem roarchive_extract_src (cfgp : bool) (cfgv : option (list bytes)) (rcb scb fcb : bool) :
    xout_of cfgv (mla_roarchive_extract (list bytes) unit (opened true) (fun _ => tt) (R_from_config true) (R_list_files true)
                    sort_bytes R_file_callback (R_linear_extract true) (if cfgp then Some cfgv else None) rcb scb fcb)
    = xout_m (roarchive_extract CHUNK TAG BLOCK LIMIT FNMAX TS TC TA TE dh kdf wdec wtag ksf tagf dec
                cfgp cfgv rcb scb fcb C s0 decide fuel).
  Proof.
    unfold mla_roarchive_extract, roarchive_extract. destruct cfgp; cbn [is_none negb]; [|reflexivity].
    destruct rcb; [|reflexivity]. destruct scb; [|reflexivity]. destruct fcb; [|reflexivity].
    cbn [negb]. apply extract_internal_src.
  Qed.

  (* mla_roarchive_info(_internal): the reader is built with seek_callback: None *)
  Definition R_header_from (_ : unit) : lres MLAError Format.header :=
    match read_header_S LIMIT (CbIn C false) s0 with
    | (_, Ok h) => LOk h
    | (_, Err e) => LErr (mla_of_rerr e)
    | (_, Crash c) => LCrash c
    end.
  Theorem roarchive_info_src (rcb info_out : bool) :
    mla_roarchive_info unit Format.header (fun _ => tt) R_header_from (fun _ => Format.VERSION) Format.h_layers rcb info_out
    = roarchive_info LIMIT rcb info_out C s0.
  Proof.
    unfold mla_roarchive_info, mla_roarchive_info_internal, roarchive_info, R_header_from.
    destruct info_out; [|reflexivity]. destruct rcb; [|reflexivity]. cbn [negb].
    destruct (read_header_S LIMIT (CbIn C false) s0) as [s1 [h|e|c]]; try reflexivity.
    now rewrite status_from_rerr_src.
  Qed.
End ReadTie.

(* ---------- the handle logic of the two reading entry points in the handle table of CApi.capi_step:
   for EVERY behaviour of the library calls and callbacks (all r_* universally quantified), a call that
   returns the status st acts on the table as capi_step's CExtract / CInfo with outcome st ---------- *)
Section ReadHandles.
  Context {LIM : Limit}.
  Variable FNMAX : N.
  Variables T_START T_CONTENT T_EOA T_EOF : N.
  Variable H : bytes -> bytes.
  Variable order : footer -> footer.
  Notation step := (capi_step FNMAX T_START T_CONTENT T_EOA T_EOF H order true).
  Variables SrcT MlaT HdrT : Type.
  Variable r_mk_reader : bool -> SrcT.
  Variable r_from_config : SrcT -> rcfg -> lres MLAError MlaT.
  Variable r_list_files : MlaT -> lres MLAError (list bytes).
  Variable r_sort : list bytes -> list bytes.
  Variable r_file_callback : list bytes -> bytes -> N * (bool * bool * list cbev).
  Variable r_linear_extract : MlaT -> list (bytes * list cbev) -> sinkmap * lres MLAError unit.
  Variable r_header_from : SrcT -> lres MLAError HdrT.
  Variables r_format_version r_layers_bits : HdrT -> N.

  Definition mem_of (s : cstate) (r : href) : option (option rcfg) :=
    match r with RNull => None | RSlot i => Some (c_rcfg s i) end.
  Definition mem_to (s : cstate) (r : href) (m : option (option rcfg)) : cstate :=
    match r, m with RSlot i, Some v => set_rcfg s i v | _, _ => s end.

  Theorem mla_roarchive_extract_handles_src s cfg rcb scb fcb stt :
    let x := mla_roarchive_extract rcfg SrcT MlaT r_mk_reader r_from_config r_list_files r_sort r_file_callback
               r_linear_extract (mem_of s cfg) rcb scb fcb in
    xs_res x = Ret stt -> sim (mem_to s cfg (xs_cfg x), xs_res x) (step s (CExtract cfg rcb scb fcb stt)).
  Proof.
    unfold mla_roarchive_extract, mla_roarchive_extract_internal.
    destruct cfg as [|ci]; cbn.
    - intros [= <-]. split; [apply cst_eq_refl|reflexivity].
    - destruct rcb, scb, fcb; cbn;
        try (intros [= <-]; split; [intro j; cbn; unfold sset; repeat split; try reflexivity; destruct (N.eqb_spec j ci); subst; reflexivity|reflexivity]).
      destruct (c_rcfg s ci) as [cf|] eqn:E; cbn.
      + assert (Hs : forall r, sim (set_rcfg s ci None, Ret r) (set_rcfg s ci None, Ret r)) by (intro; split; [apply cst_eq_refl|reflexivity]).
        destruct (r_from_config _ cf) as [m|e|c]; cbn; [|intros [= <-]; apply Hs|discriminate].
        destruct (r_list_files m) as [l|e|c]; cbn; [|intros [= <-]; apply Hs|discriminate].
        destruct (mla_roarchive_extract_internal_loop _ _ _ _) as [tr [ex|r]]; cbn.
        * destruct (r_linear_extract m ex) as [sk [u|e|c]]; cbn; [intros [= <-]; apply Hs|intros [= <-]; apply Hs|discriminate].
        * intros ->. apply Hs.
      + intros [= <-]. split; [|reflexivity]. intro j; cbn. unfold sset. repeat split; try reflexivity.
        destruct (N.eqb_spec j ci); subst; congruence.
  Qed.

  Theorem mla_roarchive_info_handles_src s rcb info_out stt :
    let x := mla_roarchive_info SrcT HdrT r_mk_reader r_header_from r_format_version r_layers_bits rcb info_out in
    fst x = Ret stt -> (s, fst x) = step s (CInfo rcb info_out stt).
  Proof.
    unfold mla_roarchive_info, mla_roarchive_info_internal. destruct info_out, rcb; cbn; try (intros [= <-]; reflexivity).
  Qed.
End ReadHandles.

(* ====================================================================== carried: no crash site *)
(* C20_no_crash carried to the TRANSLATED entry points: in EVERY state of the handle table (hence after any
   program of C calls), with NULL / cleared / never assigned handles anywhere and any callback behaviour, each
   translated function returns a status: never NullDeref, never DanglingHandle (a Box dropped while a caller
   variable still points to it), never a crash site of the writer. *)
Section Carried.
  Context {LIM : Limit}.
  Variable FNMAX : N.
  Variables T_START T_CONTENT T_EOA T_EOF : N.
  Variable H : bytes -> bytes.
  Variable order : footer -> footer.
  Notation MP := (model_prims FNMAX T_START T_CONTENT T_EOA T_EOF H order).
  Notation step := (capi_step FNMAX T_START T_CONTENT T_EOA T_EOF H order true).

  Definition src_step (s : cstate) (c : ccall) : cstate * cres :=
    match c with
    | CConfigNew out => mla_config_default_new MP s out
    | CAddPub c k => mla_config_add_public_keys MP s c k
    | CSetLevel c l => mla_config_set_compression_level MP s c l
    | CRConfigNew out => mla_reader_config_new MP s out
    | CAddPriv c k => mla_reader_config_add_private_key MP s c k
    | CArchiveNew cfg w f out io => mla_archive_new MP s cfg w f out io
    | CFileNew a nm out io => mla_archive_file_new MP s a nm out io
    | CAppend a f buf l io => mla_archive_file_append MP s a f buf l io
    | CFlush a io => mla_archive_flush MP s a io
    | CFileClose a f io => mla_archive_file_close MP s a f io
    | CArchiveClose a io => mla_archive_close MP s a io
    | CExtract _ _ _ _ _ | CInfo _ _ _ => step s c      (* see mla_roarchive_*_handles_src *)
    end.

  Theorem src_step_sim s c : sim (src_step s c) (step s c).
  Proof.
    destruct c; cbn [src_step];
      first [ apply mla_config_default_new_src | apply mla_config_add_public_keys_src
            | apply mla_config_set_compression_level_src | apply mla_reader_config_new_src
            | apply mla_reader_config_add_private_key_src | apply mla_archive_new_src
            | apply mla_archive_file_new_src | apply mla_archive_file_append_src | apply mla_archive_flush_src
            | apply mla_archive_file_close_src | apply mla_archive_close_src
            | (split; [apply cst_eq_refl|reflexivity]) ].
  Qed.

  Theorem src_step_no_crash s c : is_ret (snd (src_step s c)) = true.
  Proof.
    destruct (src_step_sim s c) as [_ ->].
    pose proof (capi_no_crash FNMAX T_START T_CONTENT T_EOA T_EOF H order [c] s) as Hn.
    unfold capi_run in Hn. destruct (step s c) as [s1 x]. cbn in Hn. now rewrite andb_true_r in Hn.
  Qed.
  (* a call naming a NULL / cleared handle: BadAPIArgument and the table is unchanged (C20_null_handles carried) *)
  Theorem src_step_null s c : null_call s c = true ->
    snd (src_step s c) = Ret BadAPIArgument /\ cst_eq (fst (src_step s c)) s.
  Proof.
    intros Hn. destruct (src_step_sim s c) as [He Hr].
    rewrite (capi_null_unchanged FNMAX T_START T_CONTENT T_EOA T_EOF H order s c Hn) in He, Hr. split; assumption.
  Qed.
End Carried.
