(* CliInfoStack.v — `ArchiveInfoReader::from_config` (mlar) against `ArchiveReader::from_config`
   (library): Tie A on the two function bodies (same calls, same order, same layer types, the top
   layer initialized once) and the model-level statement that both continue from the SAME opened
   stack (Archive.open_stack), so every theorem about that stack (C11_stack_refines, C11_stack_open)
   is a theorem about the stack `mlar info` reads through.  Also the Tie A facts of `info` itself. *)
From MLA Require Import Limit.
From MLA Require Import Base Stream Blocks Reader CompLayer EncLayer RawLayer LayerStack Format Ecies Archive CliInfo SrcTieFormat.
From MLAGen Require Src.
From Coq Require Import ZifyBool ZifyNat ZifyN.
Open Scope N_scope.

(* the calls of from_config in the model's order: 1 rewind, 2 header, 3 load_persistent, 4 raw new,
   5 reset_position, 6 top := raw, 11 encryption reader if ENCRYPT, 12 compression reader if COMPRESS,
   7 initialize (top layer), 8 footer, 9 rewind *)
Definition open_events : list N := [1; 2; 3; 4; 5; 6; 11; 12; 7; 8; 9].

Lemma info_open_events_src :
  Src.INFO_OPEN_EVENTS = Src.READER_OPEN_EVENTS /\ Src.READER_OPEN_EVENTS = open_events /\
  Src.INFO_LAYER_ORDER = Src.READER_LAYER_ORDER /\ Src.INFO_LAYER_ORDER = layer_order /\
  Src.INFO_LAYER_TYPES = Src.READER_LAYER_TYPES /\
  Src.INFO_compressed_size_from_sizes_info = 1.
Proof. repeat split; reflexivity. Qed.

Lemma info_facts_src :
  Src.INFO_sums_as_modelled = 1 /\ Src.INFO_reader_only_if_compression = 1 /\ Src.INFO_rate_is_f64_division = 1 /\
  Src.INFO_EXPECTS = 3 /\
  (* the five println!, the guard of each (0 none, 1 encryption && verbose, 2 compression && verbose) and their texts *)
  map (fun x => (fst (fst x), snd (fst x))) Src.INFO_PRINTS =
    [(0, T_VERSION); (0, T_ENC); (1, T_RECIP); (0, T_COMP); (2, T_RATE)] /\
  (* the rate is printed with {:.2} *)
  nth 4 (map snd Src.INFO_PRINTS) [] = [123; 99; 111; 109; 112; 114; 101; 115; 115; 105; 111; 110; 95; 114; 97; 116; 101; 58; 46; 50; 125].
Proof. repeat split; reflexivity. Qed.

Lemma sum_u64_cases ovf site l : (exists t, sum_u64 ovf site l = Ok t) \/ sum_u64 ovf site l = Crash site.
Proof. unfold sum_u64. destruct (total l <? 2 ^ 64); [left; eexists; reflexivity|]. destruct ovf; [right; reflexivity | left; eexists; reflexivity]. Qed.

Lemma sum_u64_small ovf site l : total l < 2 ^ 64 -> sum_u64 ovf site l = Ok (total l).
Proof. intros Hl. unfold sum_u64. destruct (N.ltb_spec (total l) (2 ^ 64)); [reflexivity | lia]. Qed.

Section InfoStack.
  Variables CHUNK TAG BLOCK LIMIT : N.
  Local Hint Extern 0 Limit => exact LIMIT : typeclass_instances.
  Variable dh : bytes -> bytes -> bytes.
  Variable kdf : bytes -> bytes.
  Variables wdec wtag : bytes -> bytes -> bytes.
  Variable ksf : bytes -> bytes -> N -> N -> N.
  Variable tagf : bytes -> bytes -> N -> bytes -> bytes.
  Variable dec : bytes -> bytes.
  Variable ovf : bool.

  Notation StackS := (StackS CHUNK TAG BLOCK ksf tagf dec).
  Notation stack_of := (stack_of CHUNK TAG BLOCK ksf tagf dec).
  Notation open_stack := (open_stack CHUNK TAG BLOCK LIMIT ksf tagf dec).
  Notation load_config := (load_config dh kdf wdec wtag).
  Notation archive_open := (archive_open CHUNK TAG BLOCK LIMIT dh kdf wdec wtag ksf tagf dec).
  Notation info_from_config := (info_from_config CHUNK TAG BLOCK LIMIT dh kdf wdec wtag ksf tagf dec ovf).
  Notation top_sizes := (top_sizes CHUNK TAG BLOCK ksf tagf dec).

  (* both functions continue from the same opened stack: same layers, same order, same initialize *)
  Theorem info_and_reader_share_the_stack a privs h rest e c k n s :
    read_header LIMIT a = Ok (h, rest) -> load_config h privs = Ok (e, c, k, n) ->
    open_stack a e c k n (len a - len rest) = Ok s ->
    archive_open a privs =
      (do r <- ropen (StackS a e c k n) s; Ok (existT _ (mkOP e c k n (len a - len rest)) r)) /\
    info_from_config a privs =
      (do csz <- match top_sizes a e c k n s with
                 | Some si => do t <- get_compressed_size ovf si; Ok (Some t)
                 | None => Ok None
                 end;
       do r <- ropen (StackS a e c k n) s; Ok (mkIR e c csz (r_meta r))).
  Proof.
    intros Hh Hl Ho. unfold Archive.archive_open, CliInfo.info_from_config. rewrite Hh. cbn [bind]. cbv iota beta.
    rewrite Hl. cbn [bind]. cbv iota beta. rewrite Ho. cbn [bind]. split; reflexivity.
  Qed.

  (* where one fails the other fails alike; where the reader opens, info holds the same footer —
     unless the u64 sum of the size table overflows under overflow checks (not reachable through
     read_sizes_info: fewer than LIMIT / 4 entries below 2^32; stated as the first alternative) *)
  Theorem info_is_reader_stack a privs :
    info_from_config a privs = Crash SITE_CSIZE_SUM \/
    match archive_open a privs with
    | Ok (existT _ p r) => exists csz, info_from_config a privs = Ok (mkIR (op_enc p) (op_comp p) csz (r_meta r))
    | Err e => info_from_config a privs = Err e
    | Crash x => info_from_config a privs = Crash x
    end.
  Proof.
    unfold Archive.archive_open, CliInfo.info_from_config.
    destruct (read_header LIMIT a) as [[h rest]|e0|c0]; cbn [bind]; [|right; reflexivity|right; reflexivity]. cbv iota beta.
    destruct (load_config h privs) as [[[[e c] k] n]|e0|c0]; cbn [bind]; [|right; reflexivity|right; reflexivity]. cbv iota beta.
    destruct (open_stack a e c k n (len a - len rest)) as [s|e0|c0]; cbn [bind]; [|right; reflexivity|right; reflexivity].
    unfold Archive.stack_of. cbn [op_enc op_comp op_key op_nonce].
    destruct (top_sizes a e c k n s) as [si|].
    - unfold get_compressed_size. destruct (sum_u64_cases ovf SITE_CSIZE_SUM (si_sizes si)) as [[t ->]| ->]; cbn [bind]; [|left; reflexivity].
      right. destruct (ropen (StackS a e c k n) s) as [r|e0|c0]; cbn [bind]; cbv beta iota; [eexists; reflexivity | reflexivity | reflexivity].
    - cbn [bind]. right. destruct (ropen (StackS a e c k n) s) as [r|e0|c0]; cbn [bind]; cbv beta iota; [eexists; reflexivity | reflexivity | reflexivity].
  Qed.

End InfoStack.
