(* EncWriterProofs.v — the encryption-layer WRITER (encrypt.rs:207-300).
   1. ew_write / ew_write_all keep the invariant EwInv (EncWriter.v) for every buffer
   2. enc_writer_canonical: any pieces through write_all, then finalize = enc_format (concat pieces)
   The flush-durability theorems (what the fail-safe reader gets from a non-finalized
   writer's bytes) are in EncFlushProofs.v. *)
From MLA Require Import Base Stream EncLayer EncWriter.
From Coq Require Import ZifyBool ZifyNat ZifyN.
Open Scope N_scope.

Section EncWriterProofs.
  Variables CHUNK TAG CIPHERBUF : N.
  Hypothesis HCHUNK : 0 < CHUNK.
  Variable ks : N -> N -> N.
  Variable tagc : N -> bytes -> bytes.

  Notation xor_from := (xor_from ks).
  Notation chunk_enc := (chunk_enc ks tagc).
  Notation enc_from := (enc_from CHUNK ks tagc).
  Notation enc_format := (enc_format CHUNK ks tagc).
  Notation nfull := (nfull CHUNK).
  Notation wire_open := (wire_open CHUNK ks tagc).
  Notation EwInv := (EwInv CHUNK ks tagc).
  Notation ew_renew := (ew_renew tagc).
  Notation ew_write := (ew_write CHUNK CIPHERBUF ks tagc).
  Notation ew_write_all := (ew_write_all CHUNK CIPHERBUF ks tagc).
  Notation ew_finalize := (ew_finalize tagc).
  Notation ew_write_pieces := (ew_write_pieces CHUNK CIPHERBUF ks tagc).
  Notation ew_archive := (ew_archive CHUNK CIPHERBUF ks tagc).

  (* ---------- helpers ---------- *)

  Lemma dm_unique b q r : 0 < b -> r < b -> (q * b + r) / b = q /\ (q * b + r) mod b = r.
  Proof.
    intros Hb Hr. split.
    - symmetry. apply (N.div_unique _ _ q r); lia.
    - symmetry. apply (N.mod_unique _ _ q r); lia.
  Qed.

  Lemma xor_app i off a b :
    xor_from i off (a ++ b) = xor_from i off a ++ xor_from i (off + len a) b.
  Proof.
    revert off; induction a as [|x a IH]; intros off; cbn [EncLayer.xor_from app].
    - rewrite len_nil, N.add_0_r. reflexivity.
    - rewrite IH. rewrite len_cons. do 3 f_equal. lia.
  Qed.

  Lemma len_xor i off d : len (xor_from i off d) = len d.
  Proof.
    revert off; induction d as [|x d IH]; intros off; cbn [EncLayer.xor_from]; [reflexivity|].
    rewrite !len_cons, IH. reflexivity.
  Qed.

  Lemma succ_nat n : N.to_nat (n + 1) = S (N.to_nat n).
  Proof. lia. Qed.

  (* ---------- the open wire form ---------- *)

  (* appending to the current chunk *)
  Lemma wire_open_app n : forall i p d off,
    len p = N.of_nat n * CHUNK + off ->
    wire_open n i (p ++ d) = wire_open n i p ++ xor_from (i + N.of_nat n) off d.
  Proof.
    induction n as [|n IH]; intros i p d off Hl; cbn [EncWriter.wire_open].
    - rewrite xor_app. f_equal. f_equal; lia.
    - rewrite takeN_app_le, dropN_app_le by lia.
      rewrite (IH (i + 1) (dropN CHUNK p) d off) by (rewrite len_dropN; lia).
      rewrite <- app_assoc. do 3 f_equal. lia.
  Qed.

  (* writing the tag of the current chunk gives the finalized form ... *)
  Lemma wire_open_final n : forall i p,
    N.of_nat n * CHUNK <= len p ->
    wire_open n i p ++ tagc (i + N.of_nat n) (xor_from (i + N.of_nat n) 0 (dropN (N.of_nat n * CHUNK) p))
    = enc_from n i p.
  Proof.
    induction n as [|n IH]; intros i p Hl; cbn [EncWriter.wire_open EncLayer.enc_from].
    - cbn [N.of_nat]. rewrite N.mul_0_l, dropN_0, N.add_0_r. reflexivity.
    - rewrite <- app_assoc. f_equal.
      rewrite <- (IH (i + 1) (dropN CHUNK p)) by (rewrite len_dropN; lia).
      rewrite dropN_dropN. do 2 f_equal; [lia | f_equal; [lia | f_equal; lia]].
  Qed.

  (* ... which, when the current chunk is full, is also the open form of one more chunk *)
  Lemma wire_open_full n : forall i p,
    len p = N.of_nat (S n) * CHUNK -> wire_open (S n) i p = enc_from n i p.
  Proof.
    induction n as [|n IH]; intros i p Hl.
    - cbn [EncWriter.wire_open EncLayer.enc_from]. rewrite dropN_all by lia.
      cbn [EncLayer.xor_from]. rewrite app_nil_r, takeN_all by lia. reflexivity.
    - change (wire_open (S (S n)) i p) with
        (chunk_enc i (takeN CHUNK p) ++ wire_open (S n) (i + 1) (dropN CHUNK p)).
      cbn [EncLayer.enc_from]. f_equal. apply IH. rewrite len_dropN. lia.
  Qed.

  (* ---------- one write ---------- *)

  Lemma EwInv_init : EwInv ew_init [].
  Proof. unfold EncWriter.EwInv. cbn. repeat split; lia. Qed.

  (* renew_cipher + the tag of the full chunk: same plaintext, next chunk, still no tag for
     the (empty) current chunk *)
  Lemma ew_renew_inv s p s1 : EwInv s p -> ew_off s = CHUNK -> ew_renew s = Ok s1 ->
    EwInv s1 p /\ ew_off s1 = 0 /\ ew_ctr s1 = ew_ctr s + 1.
  Proof.
    intros (Ho & Hl & Hc & Hw) Hfull. unfold EncLayer.ew_renew.
    destruct (2 ^ 32 <=? ew_ctr s + 1); [discriminate|]. intros [= <-].
    cbn [ew_off ew_ctr]. split; [|auto]. unfold EncWriter.EwInv. cbn [ew_off ew_ctr ew_cur ew_out].
    repeat split; try lia.
    - rewrite dropN_all by lia. reflexivity.
    - rewrite Hw, Hc, succ_nat, wire_open_full by lia.
      rewrite <- wire_open_final by lia. rewrite N2Nat.id, N.add_0_l. reflexivity.
  Qed.

  (* the body of write after the optional renewal *)
  Lemma ew_body_inv s p buf : EwInv s p -> ew_off s < CHUNK ->
    let size := N.min (N.min CIPHERBUF (len buf)) (CHUNK - ew_off s) in
    let ct := xor_from (ew_ctr s) (ew_off s) (takeN size buf) in
    EwInv (mkEW (ew_out s ++ ct) (ew_ctr s) (ew_off s + size) (ew_cur s ++ ct)) (p ++ takeN size buf).
  Proof.
    intros (Ho & Hl & Hc & Hw) Hlt size ct.
    assert (Hsz : len (takeN size buf) = size) by (rewrite len_takeN; lia).
    unfold EncWriter.EwInv. cbn [ew_off ew_ctr ew_cur ew_out]. repeat split.
    - lia.
    - rewrite len_app, Hsz. lia.
    - rewrite dropN_app_le by lia. rewrite xor_app, len_dropN, <- Hc.
      unfold ct. do 2 f_equal. lia.
    - rewrite (wire_open_app _ 0 p _ (ew_off s)) by (rewrite N2Nat.id; lia).
      rewrite Hw, N2Nat.id, N.add_0_l. reflexivity.
  Qed.

  (* Write::write, partial correctness: whatever it accepts is appended to the absorbed
     plaintext; after accepting something the current chunk is not empty *)
  Theorem ew_write_inv s p buf s' n : EwInv s p -> ew_write s buf = Ok (s', n) ->
    EwInv s' (p ++ takeN n buf) /\ n <= len buf /\ (0 < n -> 0 < ew_off s') /\
    (n = 0 -> ew_off s < CHUNK -> s' = mkEW (ew_out s) (ew_ctr s) (ew_off s) (ew_cur s)).
  Proof.
    intros Hinv. pose proof Hinv as (Ho & Hl & Hc & Hw). unfold EncLayer.ew_write.
    destruct (N.ltb_spec CHUNK (ew_off s)) as [?|_]; [lia|].
    destruct (N.eqb_spec (ew_off s) CHUNK) as [Hfull|Hne].
    - destruct (ew_renew s) as [s1|e|c] eqn:Er; cbn [bind]; try discriminate.
      destruct (ew_renew_inv s p s1 Hinv Hfull Er) as (Hinv1 & Ho1 & Hc1).
      intros [= <- <-].
      split; [apply (ew_body_inv s1 p buf Hinv1); lia|].
      cbn [ew_off]. split; [lia|]. split; [lia|]. intros _ ?. lia.
    - cbn [bind]. intros [= <- <-].
      split; [apply (ew_body_inv s p buf Hinv); lia|].
      cbn [ew_off]. split; [lia|]. split; [lia|].
      intros Hz _. rewrite Hz, takeN_0. cbn [EncLayer.xor_from]. rewrite !app_nil_r, N.add_0_r. reflexivity.
  Qed.

  (* Write::write, totality: with fewer than 2^32 chunks it succeeds and accepts
     min(CIPHERBUF, |buf|, what is left of the chunk after the lazy renewal) *)
  Theorem ew_write_ok s p buf : EwInv s p -> len p / CHUNK < 2 ^ 32 ->
    exists s' n, ew_write s buf = Ok (s', n) /\
      (0 < CIPHERBUF -> buf <> [] -> 0 < n).
  Proof.
    intros (Ho & Hl & Hc & Hw) Hbig. unfold EncLayer.ew_write.
    destruct (N.ltb_spec CHUNK (ew_off s)) as [?|_]; [lia|].
    assert (Hne : buf <> [] -> 0 < len buf).
    { destruct buf; [congruence|]. intros _. rewrite len_cons. lia. }
    destruct (N.eqb_spec (ew_off s) CHUNK) as [Hfull|Hnf].
    - unfold EncLayer.ew_renew.
      assert (Hd : len p / CHUNK = ew_ctr s + 1).
      { replace (len p) with ((ew_ctr s + 1) * CHUNK + 0) by lia. apply dm_unique; lia. }
      destruct (N.leb_spec (2 ^ 32) (ew_ctr s + 1)) as [?|_]; [lia|]. cbn [bind ew_off ew_ctr].
      eexists _, _. split; [reflexivity|]. intros HC Hb. specialize (Hne Hb). lia.
    - cbn [bind]. eexists _, _. split; [reflexivity|]. intros HC Hb. specialize (Hne Hb). lia.
  Qed.

  (* ---------- write_all ---------- *)

  Notation EwCanon := EncWriter.EwCanon.

  (* partial correctness, no side condition: if write_all returns Ok the state has absorbed
     p ++ buf *)
  Theorem ew_write_all_inv fuel : forall s p buf s',
    EwInv s p -> EwCanon s -> ew_write_all fuel s buf = Ok s' ->
    EwInv s' (p ++ buf) /\ EwCanon s'.
  Proof.
    induction fuel as [|fuel IH]; intros s p buf s' Hinv Hcan Hw.
    - destruct buf; cbn [EncLayer.ew_write_all] in Hw; [|discriminate].
      injection Hw as <-. rewrite app_nil_r. auto.
    - destruct buf as [|x b]; [cbn [EncLayer.ew_write_all] in Hw; injection Hw as <-; rewrite app_nil_r; auto|].
      set (buf := x :: b) in *.
      change (ew_write_all (S fuel) s buf) with
        (do r <- ew_write s buf; let '(s1, n) := r in
         if n =? 0 then Err EIo else ew_write_all fuel s1 (dropN n buf)) in Hw.
      destruct (ew_write s buf) as [[s1 n]|e|c] eqn:E1; cbn [bind] in Hw; try discriminate.
      destruct (N.eqb_spec n 0) as [?|Hn]; [discriminate|].
      destruct (ew_write_inv s p buf s1 n Hinv E1) as (Hinv1 & Hnb & Hpos & _).
      assert (Hcan1 : EwCanon s1) by (intros Hz; lia).
      destruct (IH s1 _ _ s' Hinv1 Hcan1 Hw) as [Hinv' Hcan'].
      rewrite <- app_assoc, takeN_dropN in Hinv'. auto.
  Qed.

  (* totality: enough fuel (one unit per write call, each accepting at least a byte), both
     buffer constants positive, fewer than 2^32 chunks *)
  Theorem ew_write_all_ok fuel : forall s p buf,
    0 < CIPHERBUF -> EwInv s p -> len (p ++ buf) / CHUNK < 2 ^ 32 ->
    (N.to_nat (len buf) < fuel)%nat ->
    exists s', ew_write_all fuel s buf = Ok s'.
  Proof.
    intros s p buf HCB. revert s p buf.
    induction fuel as [|fuel IH]; intros s p buf Hinv Hbig Hf; [lia|].
    destruct buf as [|x b]; [eexists; reflexivity|].
    set (buf := x :: b) in *.
    change (ew_write_all (S fuel) s buf) with
      (do r <- ew_write s buf; let '(s1, n) := r in
       if n =? 0 then Err EIo else ew_write_all fuel s1 (dropN n buf)).
    assert (Hp : len p / CHUNK < 2 ^ 32).
    { apply (N.le_lt_trans _ (len (p ++ buf) / CHUNK)); [|exact Hbig].
      apply N.div_le_mono; [lia|]. rewrite len_app. lia. }
    destruct (ew_write_ok s p buf Hinv Hp) as (s1 & n & E1 & Hn).
    rewrite E1. cbn [bind].
    assert (Hn0 : 0 < n) by (apply Hn; [exact HCB | discriminate]).
    destruct (N.eqb_spec n 0) as [?|_]; [lia|].
    destruct (ew_write_inv s p buf s1 n Hinv E1) as (Hinv1 & Hnb & _ & _).
    apply (IH s1 (p ++ takeN n buf)); [exact Hinv1 | |].
    - rewrite <- app_assoc, takeN_dropN. exact Hbig.
    - rewrite len_dropN. lia.
  Qed.

  (* A1: the state after writing buf from a state that has absorbed p has absorbed p ++ buf *)
  Theorem ew_write_all_spec fuel s p buf :
    0 < CIPHERBUF -> EwInv s p -> EwCanon s -> len (p ++ buf) / CHUNK < 2 ^ 32 ->
    (N.to_nat (len buf) < fuel)%nat ->
    exists s', ew_write_all fuel s buf = Ok s' /\ EwInv s' (p ++ buf) /\ EwCanon s'.
  Proof.
    intros HCB Hinv Hcan Hbig Hf.
    destruct (ew_write_all_ok fuel s p buf HCB Hinv Hbig Hf) as [s' Hw].
    exists s'. split; [exact Hw|]. exact (ew_write_all_inv fuel s p buf s' Hinv Hcan Hw).
  Qed.

  (* ---------- any pieces, then finalize ---------- *)

  Lemma ew_write_pieces_inv fuel : forall pieces s p s',
    EwInv s p -> EwCanon s -> ew_write_pieces fuel s pieces = Ok s' ->
    EwInv s' (p ++ concat pieces) /\ EwCanon s'.
  Proof.
    induction pieces as [|b r IH]; intros s p s' Hinv Hcan Hw; cbn [EncWriter.ew_write_pieces concat] in *.
    - injection Hw as <-. rewrite app_nil_r. auto.
    - destruct (ew_write_all fuel s b) as [s1|e|c] eqn:E1; cbn [bind] in Hw; try discriminate.
      destruct (ew_write_all_inv fuel s p b s1 Hinv Hcan E1) as [Hinv1 Hcan1].
      destruct (IH s1 _ s' Hinv1 Hcan1 Hw) as [H1 H2]. rewrite <- app_assoc in H1. auto.
  Qed.

  Lemma canon_ctr s p : EwInv s p -> EwCanon s -> ew_ctr s = nfull (len p).
  Proof.
    intros (Ho & Hl & _ & _) Hcan. unfold EncLayer.nfull.
    destruct (N.eq_dec (ew_off s) 0) as [Hz|Hnz].
    - rewrite (Hcan Hz) in *. replace (len p - 1) with 0 by lia. symmetry. apply N.div_small. lia.
    - replace (len p - 1) with (ew_ctr s * CHUNK + (ew_off s - 1)) by lia.
      symmetry. apply dm_unique; lia.
  Qed.

  Theorem ew_finalize_inv s p s' : EwInv s p -> EwCanon s -> ew_finalize s = Ok s' ->
    ew_out s' = enc_format p.
  Proof.
    intros Hinv Hcan. pose proof (canon_ctr s p Hinv Hcan) as Hctr.
    destruct Hinv as (Ho & Hl & Hc & Hw).
    unfold EncLayer.ew_finalize, EncLayer.ew_renew.
    destruct (2 ^ 32 <=? ew_ctr s + 1); [discriminate|]. intros [= <-]. cbn [ew_out].
    unfold EncLayer.enc_format. rewrite <- Hctr, Hw, Hc.
    rewrite <- (wire_open_final (N.to_nat (ew_ctr s)) 0 p) by (rewrite N2Nat.id; lia).
    rewrite N2Nat.id, N.add_0_l. reflexivity.
  Qed.

  (* A2 (C01): whatever the pieces — empty pieces, pieces across several chunks, total length
     0, exact multiples of CHUNK — if the writer succeeds, it has produced the canonical wire
     format.  No side condition other than 0 < CHUNK. *)
  Theorem enc_writer_canonical fuel pieces s :
    ew_archive fuel pieces = Ok s -> ew_out s = enc_format (concat pieces).
  Proof.
    unfold EncWriter.ew_archive. intros Hr.
    destruct (ew_write_pieces fuel ew_init pieces) as [s1|e|c] eqn:E1; cbn [bind] in Hr; try discriminate.
    assert (Hc0 : EwCanon ew_init) by (intros _; reflexivity).
    destruct (ew_write_pieces_inv fuel pieces ew_init [] s1 EwInv_init Hc0 E1) as [Hinv Hcan].
    exact (ew_finalize_inv s1 _ s Hinv Hcan Hr).
  Qed.

  (* and it does succeed: enough fuel for the longest piece, fewer than 2^32 - 1 chunks *)
  Lemma ew_write_pieces_ok fuel : forall pieces s p,
    0 < CIPHERBUF -> EwInv s p -> EwCanon s -> len (p ++ concat pieces) / CHUNK < 2 ^ 32 ->
    (forall b, In b pieces -> (N.to_nat (len b) < fuel)%nat) ->
    exists s', ew_write_pieces fuel s pieces = Ok s'.
  Proof.
    induction pieces as [|b r IH]; intros s p HCB Hinv Hcan Hbig Hf; cbn [EncWriter.ew_write_pieces concat] in *.
    - eexists; reflexivity.
    - destruct (ew_write_all_spec fuel s p b HCB Hinv Hcan) as (s1 & E1 & Hinv1 & Hcan1).
      + apply (N.le_lt_trans _ (len (p ++ b ++ concat r) / CHUNK)); [|exact Hbig].
        apply N.div_le_mono; [lia|]. rewrite !len_app. lia.
      + apply Hf. left; reflexivity.
      + rewrite E1. cbn [bind]. apply (IH s1 (p ++ b) HCB Hinv1 Hcan1).
        * rewrite <- app_assoc. exact Hbig.
        * intros b' Hb'. apply Hf. right; exact Hb'.
  Qed.

  Theorem enc_writer_total fuel pieces :
    0 < CIPHERBUF -> len (concat pieces) / CHUNK + 1 < 2 ^ 32 ->
    (forall b, In b pieces -> (N.to_nat (len b) < fuel)%nat) ->
    exists s, ew_archive fuel pieces = Ok s /\ ew_out s = enc_format (concat pieces).
  Proof.
    intros HCB Hbig Hf. unfold EncWriter.ew_archive.
    assert (Hc0 : EwCanon ew_init) by (intros _; reflexivity).
    destruct (ew_write_pieces_ok fuel pieces ew_init [] HCB EwInv_init Hc0) as [s1 E1]; [cbn [app]; lia | exact Hf |].
    destruct (ew_write_pieces_inv fuel pieces ew_init [] s1 EwInv_init Hc0 E1) as [Hinv Hcan].
    cbn [app] in Hinv.
    assert (Hfin : exists s, ew_finalize s1 = Ok s).
    { unfold EncLayer.ew_finalize, EncLayer.ew_renew. destruct Hinv as (Ho & Hl & _ & _).
      assert (ew_ctr s1 <= len (concat pieces) / CHUNK).
      { apply N.div_le_lower_bound; lia. }
      destruct (N.leb_spec (2 ^ 32) (ew_ctr s1 + 1)) as [?|_]; [lia|]. eexists; reflexivity. }
    destruct Hfin as [s Hs]. exists s. rewrite E1. cbn [bind]. split; [exact Hs|].
    exact (ew_finalize_inv s1 _ s Hinv Hcan Hs).
  Qed.

  (* the only way to leave the canonical form: Write::write called directly with an EMPTY
     buffer when the current chunk is full renews the cipher and writes the tag (the code
     tests the offset before looking at the buffer), so that finalize then emits one more,
     empty, chunk.  write_all never does this (it does not call write on an empty buffer).
     The invariant EwInv still holds (EwCanon does not). *)
  Lemma ew_write_empty_at_boundary s p : EwInv s p -> ew_off s = CHUNK -> ew_ctr s + 1 < 2 ^ 32 ->
    exists s', ew_write s [] = Ok (s', 0) /\ EwInv s' p /\ ew_off s' = 0 /\ ew_ctr s' = ew_ctr s + 1.
  Proof.
    intros Hinv Hfull Hbig. unfold EncLayer.ew_write.
    destruct (N.ltb_spec CHUNK (ew_off s)) as [?|_]; [lia|].
    destruct (N.eqb_spec (ew_off s) CHUNK) as [_|?]; [|lia].
    destruct (ew_renew s) as [s1|e|c] eqn:Er.
    - destruct (ew_renew_inv s p s1 Hinv Hfull Er) as (Hinv1 & Ho1 & Hc1). cbn [bind].
      rewrite len_nil. replace (N.min (N.min CIPHERBUF 0) (CHUNK - ew_off s1)) with 0 by lia.
      rewrite takeN_0. cbn [EncLayer.xor_from]. rewrite !app_nil_r, N.add_0_r.
      eexists. split; [reflexivity|].
      destruct s1 as [o c o' cu]. cbn [ew_out ew_ctr ew_off ew_cur] in *. auto.
    - unfold EncLayer.ew_renew in Er. destruct (N.leb_spec (2 ^ 32) (ew_ctr s + 1)); [lia | discriminate].
    - unfold EncLayer.ew_renew in Er. destruct (N.leb_spec (2 ^ 32) (ew_ctr s + 1)); [lia | discriminate].
  Qed.
End EncWriterProofs.
