(* LinearRoundTripInst.v — C12, functional clause: the theorems of LinearRoundTrip.v applied to
   the concrete run of RoundTripInst.v (3 files a, b, "cé"; a interleaved with b and the
   add_file of "cé"; FILENAME_MAX_SIZE = 48, source tags, SHA-256, footer in reverse order;
   read through a throttled stream delivering 1, 3, 2, 2, ... bytes per read), and the
   evaluated linear extraction of strict subsets of its names. *)
From MLA Require Import Limit.
From MLAGen Require Src.
#[local] Instance EX_LIMIT : Limit := MLAGen.Src.BINCODE_MAX_DESERIALIZE_prod.
From MLA Require Import Base Stream Blocks Writer Reader LinearProofs RoundTripBlocks RoundTripFooter
  RoundTripReader RoundTripWriter RoundTripRun RoundTripGlue RoundTrip RoundTripInst Sink SinkProofs
  LinearRoundTripDefs LinearRoundTripPure LinearRoundTrip Inst.
From MLA Require Run.
From MLA.Concrete Require Import Sha256.
From MLAGen Require Src.
From Coq Require Import ZifyBool ZifyNat ZifyN Permutation.
Open Scope N_scope.

(* more loop steps than the archive has bytes *)
Definition lx_ex_fuel : nat := 500.
Lemma lx_ex_fuel_ok : (N.to_nat (len (w_out ex_sf)) < lx_ex_fuel)%nat.
Proof. vm_compute. lia. Qed.

(* the main theorem applies to the run, for every opened reader and EVERY export list *)
Lemma lx_ex_applies r export : RS ex_order ex_sf ex_S ex_R r ->
  exists out, linear_extract 48 TS TC TA TE ex_S lx_ex_fuel r export = Ok out /\
    chosen_only export out /\
    (forall name id, In (name, id) (started 0 ex_ops) ->
       delivered name out = if name_in export name then pieces 0 id ex_ops else []) /\
    (forall name, ~ In name (map fst (started 0 ex_ops)) -> delivered name out = []).
Proof.
  intros HRS.
  exact (linear_roundtrip 48 TS TC TA TE sha256 ex_order src_tags_distinct len_sha256 ex_ops ex_sf ex_rs
           ex_hyp_run ex_hyp_ok ex_hyp_utf8 ex_hyp_len64 ex_hyp_foot32 ex_S ex_R ex_hyp_refines
           r export lx_ex_fuel HRS lx_ex_fuel_ok).
Qed.

(* evaluated: open, then linear extraction into `export` *)
Definition lx_ex_run (export : list bytes) : option (res (list (bytes * bytes))) :=
  match ropen ex_S ex_s0 with
  | Ok r => Some (linear_extract 48 TS TC TA TE ex_S lx_ex_fuel r export)
  | _ => None
  end.

(* a sink accepting 1 byte, interrupting, accepting 2, interrupting twice, then 1 byte at a
   time; io::copy cutting each piece after its first byte *)
Definition lx_ex_sink : sink := mkSink [200] [Accept 1; Interrupt; Accept 2; Interrupt; Interrupt; Accept 0; Accept 1].
Definition lx_ex_split (b : bytes) : list bytes := [takeN 1 b; dropN 1 b].
Lemma lx_ex_split_ok b : concat (lx_ex_split b) = b.
Proof. unfold lx_ex_split. cbn [concat]. rewrite app_nil_r. apply takeN_dropN. Qed.
Lemma lx_ex_sink_good : good_sched (sk_sched lx_ex_sink).
Proof. reflexivity. Qed.

Lemma lx_ex_evaluated :
  (* a strict subset with a name the archive lacks ([100]): a's two pieces, in order *)
  lx_ex_run [[97]; [100]] = Some (Ok [([97], [1; 2; 3]); ([97], [4])]) /\
  (* another strict subset, order of the export list irrelevant *)
  lx_ex_run [[99; 195; 169]; [98]] = Some (Ok [([98], [7; 8]); ([99; 195; 169], [5; 6])]) /\
  (* nothing chosen: success, nothing delivered *)
  lx_ex_run [] = Some (Ok []) /\
  (* everything *)
  lx_ex_run [[97]; [98]; [99; 195; 169]] =
    Some (Ok [([97], [1; 2; 3]); ([98], [7; 8]); ([99; 195; 169], [5; 6]); ([97], [4])]) /\
  (* what a's writer holds = pieces 0 0 ex_ops = what get_file + reads returned (ex_readback) *)
  delivered [97] [([97], [1; 2; 3]); ([98], [7; 8]); ([99; 195; 169], [5; 6]); ([97], [4])] = [1; 2; 3; 4] /\
  pieces 0 0 ex_ops = [1; 2; 3; 4] /\
  ex_read [97] = Some (4, Ok [1; 2; 3; 4], true, Ok (Some (sha256 [1; 2; 3; 4]))) /\
  (* through the throttling, interrupting sink *)
  (let ps := pieces_to [97] [([97], [1; 2; 3]); ([98], [7; 8]); ([99; 195; 169], [5; 6]); ([97], [4])] in
   let '(k, r) := write_all_list SinkW 20 lx_ex_sink (flat_map lx_ex_split ps) in
   (sk_data k, r)) = ([200; 1; 2; 3; 4], WAOk).
Proof. vm_compute. repeat split; reflexivity. Qed.

(* the row of Run.hist_op (op 4) that the harness compares with what the implementation's
   writers collected is `delivered` *)
Lemma run_row_is_delivered name ps : Run.pieces_for name ps = delivered name ps.
Proof. reflexivity. Qed.
