(* RepairProofs1.v — the fail-safe source seen through "what is still to come": reads of a
   stream refining a cursor, ArchiveFileBlock::from on a (possibly cut) serialised block,
   'buf_fill and the 'content loop on a (possibly cut) content region. *)
From MLA Require Import Limit.
From MLA Require Import Base Stream Blocks Writer Repair RepairSpec.
From Coq Require Import ZifyBool ZifyNat ZifyN.
Open Scope N_scope.

Lemma len_le64 v : len (le64 v) = 8.
Proof. unfold le64. rewrite len_le_bytes. reflexivity. Qed.
Lemma le64_val v : v < 2 ^ 64 -> le_val (le64 v) = v.
Proof. intros Hv. unfold le64. apply le_val_le_bytes. exact Hv. Qed.

Lemma prefix_app_split {A} (a f rest : list A) : prefix a (f ++ rest) ->
  (len f <= len a /\ exists a', a = f ++ a' /\ prefix a' rest) \/ (len a < len f).
Proof.
  intros Hp. destruct (N.le_gt_cases (len f) (len a)) as [Hle|Hgt]; [left | right; exact Hgt].
  split; [exact Hle|].
  pose proof (prefix_is_takeN _ _ Hp) as Ha.
  rewrite takeN_app_ge in Ha by exact Hle.
  exists (takeN (len a - len f) rest). split; [exact Ha | apply prefix_takeN].
Qed.
Lemma prefix_nil_r {A} (a : list A) : prefix a [] -> a = [].
Proof. intros [r Hr]. symmetry in Hr. apply app_eq_nil in Hr. tauto. Qed.

Section Src.
  Context {LIM : Limit}.
  Variable S : Stream.
  Variable w : bytes.
  Variable R : st S -> N -> Prop.
  Hypothesis HR : Refines S w R.

  (* the source stands where exactly the bytes `a` are still to come *)
  Definition At (s : st S) (a : bytes) : Prop := exists p, R s p /\ dropN p w = a.

  Lemma At_len s a p : R s p -> dropN p w = a -> len a = len w - p /\ p <= len w.
  Proof.
    intros HRs <-. rewrite len_dropN. split; [reflexivity | exact (ref_range _ _ _ HR s p HRs)].
  Qed.

  Lemma rexact_At s a n : At s a ->
    exists s', rexact S s n = (s', if n <=? len a then Ok (takeN n a) else Err EUnexpectedEof) /\
               At s' (dropN n a).
  Proof.
    intros (p & HRs & Ha). destruct (At_len s a p HRs Ha) as [Hl Hp].
    unfold rexact.
    destruct (read_exact_spec S w R HR (Datatypes.S (N.to_nat n)) s p n HRs) as (s' & HR' & Heq); [lia|].
    exists s'. split.
    - rewrite Heq. f_equal.
      destruct (N.leb_spec (p + n) (len w)); destruct (N.leb_spec n (len a)); try lia; [|reflexivity].
      f_equal. unfold sliceN. now rewrite Ha.
    - exists (p + N.min n (len w - p)). split; [exact HR'|].
      rewrite <- Ha, dropN_dropN.
      destruct (N.le_gt_cases n (len w - p)).
      + f_equal; lia.
      + rewrite !dropN_all by lia. reflexivity.
  Qed.

  Lemma rd_At s a n : At s a ->
    exists s' k, rd S s n = (s', Ok (takeN k a)) /\ k <= n /\ k <= len a /\
                 (k = 0 -> n = 0 \/ a = []) /\ At s' (dropN k a).
  Proof.
    intros (p & HRs & Ha). destruct (At_len s a p HRs Ha) as [Hl Hp].
    destruct (ref_rd _ _ _ HR s p n HRs) as (s' & k & Hrd & Hkn & Hkb & Hz & HR').
    exists s', k. repeat split.
    - rewrite Hrd. unfold sliceN. now rewrite Ha.
    - exact Hkn.
    - lia.
    - intros Hk. destruct (Hz Hk) as [?|Hend]; [left; assumption | right].
      apply len_0_nil. lia.
    - exists (p + k). split; [exact HR'|]. rewrite <- Ha, dropN_dropN. reflexivity.
  Qed.

  (* reading one field of a serialised item, when what is to come is a prefix of
     field ++ rest: the whole field, or UnexpectedEof *)
  Lemma rexact_field s a f rest n : At s a -> prefix a (f ++ rest) -> n = len f ->
    exists s',
      (exists a', a = f ++ a' /\ prefix a' rest /\ At s' a' /\ rexact S s n = (s', Ok f)) \/
      (len a < len f /\ rexact S s n = (s', Err EUnexpectedEof)).
  Proof.
    intros HA Hp ->. destruct (rexact_At s a (len f) HA) as (s' & Heq & HA').
    exists s'. destruct (prefix_app_split _ _ _ Hp) as [[Hle (a' & -> & Hp')]|Hlt].
    - left. exists a'. rewrite dropN_len_app in HA'. repeat split; try assumption.
      rewrite Heq. destruct (N.leb_spec (len f) (len (f ++ a'))); [|lia].
      now rewrite takeN_len_app.
    - right. split; [exact Hlt|]. rewrite Heq.
      destruct (N.leb_spec (len f) (len a)); [lia | reflexivity].
  Qed.

  Lemma read_u64_field s a v rest : At s a -> prefix a (le64 v ++ rest) -> v < 2 ^ 64 ->
    exists s',
      (exists a', a = le64 v ++ a' /\ prefix a' rest /\ At s' a' /\ read_u64 S s = (s', Ok v)) \/
      (len a < 8 /\ read_u64 S s = (s', Err EUnexpectedEof)).
  Proof.
    intros HA Hp Hv. unfold read_u64.
    destruct (rexact_field s a (le64 v) rest 8 HA Hp) as (s' & [(a' & -> & Hp' & HA' & Heq)|[Hlt Heq]]).
    - now rewrite len_le64.
    - exists s'. left. exists a'. rewrite Heq, le64_val by exact Hv. auto.
    - exists s'. right. rewrite len_le64 in Hlt. rewrite Heq. auto.
  Qed.

  (* ---------- ArchiveFileBlock::from ---------- *)
  Variable FNMAX : N.
  Variables T_START T_CONTENT T_EOA T_EOF : N.
  Notation ser_block := (ser_block T_START T_CONTENT T_EOA T_EOF).
  Notation parse_block := (parse_block FNMAX T_START T_CONTENT T_EOA T_EOF S).

  (* the part of a serialised block that ArchiveFileBlock::from consumes *)
  Definition hdr (b : block) : bytes :=
    match b with
    | BContent id d => [T_CONTENT] ++ le64 id ++ le64 (len d)
    | _ => ser_block b
    end.
  Definition bpay (b : block) : bytes := match b with BContent _ d => d | _ => [] end.
  Definition pb_of (b : block) : pblock :=
    match b with
    | BStart id n => PStart id n
    | BContent id d => PContent id (len d)
    | BEof id h => PEof id h
    | BEnd => PEnd
    end.
  (* what the parser checks or needs of a block *)
  Definition blk_ok (b : block) : Prop :=
    match b with
    | BStart id n => id < 2 ^ 64 /\ len n <= FNMAX /\ utf8_valid n = true
    | BContent id d => id < 2 ^ 64 /\ len d < 2 ^ 64
    | BEof id h => id < 2 ^ 64 /\ len h = 32
    | BEnd => True
    end.

  Lemma ser_block_hdr b : ser_block b = hdr b ++ bpay b.
  Proof.
    destruct b; cbn [hdr bpay Blocks.ser_block]; rewrite ?app_nil_r; try reflexivity; try (now rewrite <- !app_assoc).
  Qed.
  Lemma len_ser_block b : len (ser_block b) = blen b.
  Proof.
    destruct b; cbn [Blocks.ser_block blen]; rewrite ?len_app, ?len_le64, ?len_cons, ?len_nil; lia.
  Qed.
  Lemma len_hdr b : len (hdr b) + len (bpay b) = blen b.
  Proof. rewrite <- len_ser_block, ser_block_hdr, len_app. reflexivity. Qed.

  Hypothesis HFN : FNMAX < 2 ^ 64.
  Hypothesis Htags : T_START <> T_CONTENT /\ T_START <> T_EOA /\ T_START <> T_EOF /\
                     T_CONTENT <> T_EOA /\ T_CONTENT <> T_EOF /\ T_EOA <> T_EOF.

  Lemma parse_block_at s a b rest : At s a -> prefix a (hdr b ++ rest) -> blk_ok b ->
    exists s',
      (exists a', a = hdr b ++ a' /\ prefix a' rest /\ At s' a' /\ parse_block s = (s', Ok (pb_of b))) \/
      (len a < len (hdr b) /\ parse_block s = (s', Err EUnexpectedEof)).
  Proof.
    intros HA Hp Hok. destruct Htags as (H1 & H2 & H3 & H4 & H5 & H6).
    unfold Blocks.parse_block.
    destruct b as [id name|id d|id h|]; cbn [hdr Blocks.ser_block pb_of blk_ok] in *.
    - (* FileStart *)
      destruct Hok as (Hid & Hn & Hu).
      rewrite <- app_assoc in Hp.
      destruct (rexact_field s a [T_START] _ 1 HA Hp eq_refl) as (s1 & [(a1 & -> & Hp1 & HA1 & ->)|[Hlt ->]]);
        [|exists s1; right; split; [rewrite !len_app in *; lia | reflexivity]].
      rewrite N.eqb_refl.
      destruct (read_u64_field s1 a1 id _ HA1 Hp1 Hid) as (s2 & [(a2 & -> & Hp2 & HA2 & ->)|[Hlt ->]]);
        [|exists s2; right; split; [rewrite !len_app, len_le64 in *; lia | reflexivity]].
      assert (Hl64 : len name < 2 ^ 64) by lia.
      destruct (read_u64_field s2 a2 (len name) _ HA2 Hp2 Hl64) as (s3 & [(a3 & -> & Hp3 & HA3 & ->)|[Hlt ->]]);
        [|exists s3; right; split; [rewrite !len_app, !len_le64 in *; lia | reflexivity]].
      destruct (N.ltb_spec FNMAX (len name)); [lia|].
      destruct (rexact_field s3 a3 name rest (len name) HA3 Hp3 eq_refl) as (s4 & [(a4 & -> & Hp4 & HA4 & ->)|[Hlt ->]]);
        [|exists s4; right; split; [rewrite !len_app, !len_le64 in *; lia | reflexivity]].
      rewrite Hu. exists s4. left. exists a4. rewrite <- !app_assoc. auto.
    - (* FileContent *)
      destruct Hok as (Hid & Hd).
      rewrite <- !app_assoc in Hp.
      destruct (rexact_field s a [T_CONTENT] _ 1 HA Hp eq_refl) as (s1 & [(a1 & -> & Hp1 & HA1 & ->)|[Hlt ->]]);
        [|exists s1; right; split; [rewrite !len_app in *; lia | reflexivity]].
      destruct (N.eqb_spec T_CONTENT T_START); [congruence|]. rewrite N.eqb_refl.
      destruct (read_u64_field s1 a1 id _ HA1 Hp1 Hid) as (s2 & [(a2 & -> & Hp2 & HA2 & ->)|[Hlt ->]]);
        [|exists s2; right; split; [rewrite !len_app, len_le64 in *; lia | reflexivity]].
      destruct (read_u64_field s2 a2 (len d) _ HA2 Hp2 Hd) as (s3 & [(a3 & -> & Hp3 & HA3 & ->)|[Hlt ->]]);
        [|exists s3; right; split; [rewrite !len_app, !len_le64 in *; lia | reflexivity]].
      exists s3. left. exists a3. rewrite <- !app_assoc. auto.
    - (* EndOfFile *)
      destruct Hok as (Hid & Hh).
      rewrite <- !app_assoc in Hp.
      destruct (rexact_field s a [T_EOF] _ 1 HA Hp eq_refl) as (s1 & [(a1 & -> & Hp1 & HA1 & ->)|[Hlt ->]]);
        [|exists s1; right; split; [rewrite !len_app in *; lia | reflexivity]].
      destruct (N.eqb_spec T_EOF T_START); [congruence|].
      destruct (N.eqb_spec T_EOF T_CONTENT); [congruence|]. rewrite N.eqb_refl.
      destruct (read_u64_field s1 a1 id _ HA1 Hp1 Hid) as (s2 & [(a2 & -> & Hp2 & HA2 & ->)|[Hlt ->]]);
        [|exists s2; right; split; [rewrite !len_app, len_le64 in *; lia | reflexivity]].
      destruct (rexact_field s2 a2 h rest 32 HA2 Hp2 (eq_sym Hh)) as (s3 & [(a3 & -> & Hp3 & HA3 & ->)|[Hlt ->]]);
        [|exists s3; right; split; [rewrite !len_app, !len_le64 in *; lia | reflexivity]].
      exists s3. left. exists a3. rewrite <- !app_assoc. auto.
    - (* EndOfArchiveData *)
      destruct (rexact_field s a [T_EOA] _ 1 HA Hp eq_refl) as (s1 & [(a1 & -> & Hp1 & HA1 & ->)|[Hlt ->]]);
        [|exists s1; right; split; [exact Hlt | reflexivity]].
      destruct (N.eqb_spec T_EOA T_START); [congruence|].
      destruct (N.eqb_spec T_EOA T_CONTENT); [congruence|].
      destruct (N.eqb_spec T_EOA T_EOF); [congruence|]. rewrite N.eqb_refl.
      exists s1. left. exists a1. auto.
  Qed.
  (* ---------- 'buf_fill ---------- *)
  Variable CACHE : N.
  Notation buf_fill := (buf_fill CACHE S).

  (* the cache is filled with the next min(remaining, what is to come, room) bytes, whatever
     the sizes of the individual reads *)

  Lemma buf_fill_spec fuel : forall s a rem acc k, At s a ->
    (N.to_nat (len a) < fuel)%nat ->
    k = N.min (N.min rem (len a)) (CACHE - len acc) ->
    exists s', buf_fill fuel s rem acc = (s', rem - k, acc ++ takeN k a, None) /\ At s' (dropN k a).
  Proof.
    clear HFN Htags.
    induction fuel as [|fuel IH]; intros s a rem acc k HA Hf Hk; [lia|].
    cbn [Repair.buf_fill].
    destruct (N.eqb_spec (N.min rem (CACHE - len acc)) 0) as [Hw|Hw].
    - assert (k = 0) by lia. subst k. exists s. rewrite H, N.sub_0_r, takeN_0, app_nil_r, dropN_0. auto.
    - destruct (rd_At s a (N.min rem (CACHE - len acc)) HA) as (s1 & j & Hrd & Hjn & Hja & Hz & HA1).
      rewrite Hrd.
      assert (Hlj : len (takeN j a) = j) by (rewrite len_takeN; lia).
      rewrite Hlj.
      destruct (N.eqb_spec j 0) as [Hj|Hj].
      + subst j. destruct (Hz eq_refl) as [?|Ha]; [lia|]. subst a.
        assert (k = 0) by (rewrite len_nil in Hk; lia). subst k.
        exists s1. rewrite H, N.sub_0_r, takeN_0, app_nil_r. rewrite dropN_0 in *. auto.
      + rewrite len_app, Hlj.
        destruct (N.leb_spec CACHE (len acc + j)) as [Hfull|Hroom].
        * assert (k = j) by lia. subst k. exists s1. rewrite H. auto.
        * assert (Hk2 : k - j = N.min (N.min (rem - j) (len (dropN j a))) (CACHE - len (acc ++ takeN j a))).
          { rewrite len_app, Hlj, len_dropN, Hk, <- !N.sub_min_distr_r, N.sub_add_distr. reflexivity. }
          assert (Hjk : j <= k) by (clear -Hk Hjn Hja; lia).
          assert (Hf2 : (N.to_nat (len (dropN j a)) < fuel)%nat) by (rewrite len_dropN; clear -Hf Hj Hja; lia).
          destruct (IH s1 (dropN j a) (rem - j) (acc ++ takeN j a) (k - j) HA1 Hf2 Hk2) as (s2 & Heq & HA2).
          exists s2. rewrite Heq. split.
          -- replace (rem - j - (k - j)) with (rem - k) by (clear -Hjk; lia). f_equal. f_equal.
             rewrite <- app_assoc. f_equal. replace k with (j + (k - j)) at 2 by (clear -Hjk; lia).
             now rewrite takeN_add.
          -- rewrite dropN_dropN in HA2. replace (j + (k - j)) with k in HA2 by (clear -Hjk; lia). exact HA2.
Qed.
End Src.
