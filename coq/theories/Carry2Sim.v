(* Carry2Sim.v — work package `carry2`, part 2a: every operation of the archive reader (Reader.v) and one operation
   of a history (Run.hist_op) is PARAMETRIC in the stream: over two streams S1, S2 related by a simulation A
   (from A-related states a read returns the same result and leaves A-related states; the same for an ABSOLUTE
   seek — the only seeks the reader issues after it is open), they return equal results and leave A-related
   sources.  The heterogeneous form of HistStack.v, part 1 (there: one stream, a bisimulation on its states);
   the proofs are the same case analyses with the two streams told apart.
   Used by Carry2Hist.v with S1 = the translated layer stack and S2 = the model's. *)
From MLA Require Import Limit.
From MLA Require Import Base Stream Blocks Reader Inst Run HistProofs.
From MLAGen Require Src.
From Coq Require Import ZifyBool ZifyNat ZifyN.
Open Scope N_scope.

(* a simulation for reads and absolute seeks *)
Definition SimRS (S1 S2 : Stream) (A : st S1 -> st S2 -> Prop) : Prop :=
  (forall x s n, A x s -> snd (rd S1 x n) = snd (rd S2 s n) /\ A (fst (rd S1 x n)) (fst (rd S2 s n))) /\
  (forall x s p, A x s -> snd (sk S1 x (FromStart p)) = snd (sk S2 s (FromStart p)) /\
                          A (fst (sk S1 x (FromStart p))) (fst (sk S2 s (FromStart p)))).

Section Sim.
  Context {LIM : Limit}.
  Variables S1 S2 : Stream.
  Variable A : st S1 -> st S2 -> Prop.
  Hypothesis HA : SimRS S1 S2 A.

  Definition RespH {B} (c1 : st S1 * res B) (c2 : st S2 * res B) : Prop := snd c1 = snd c2 /\ A (fst c1) (fst c2).

  Lemma resp_ret {B} s1 s2 (r : res B) : A s1 s2 -> RespH (s1, r) (s2, r).
  Proof. intros H. split; [reflexivity | exact H]. Qed.
  Lemma rd_resp s1 s2 n : A s1 s2 -> RespH (rd S1 s1 n) (rd S2 s2 n).
  Proof. intros H. exact (proj1 HA s1 s2 n H). Qed.
  Lemma sk_resp s1 s2 p : A s1 s2 -> RespH (sk S1 s1 (FromStart p)) (sk S2 s2 (FromStart p)).
  Proof. intros H. exact (proj2 HA s1 s2 p H). Qed.

  Ltac use H :=
    let Hr := fresh "Hr" in let Hx := fresh "Hx" in
    destruct H as [Hr Hx];
    match type of Hr with
    | snd ?c1 = snd ?c2 =>
      let a1 := fresh "a" in let r1 := fresh "r" in let a2 := fresh "b" in let r2 := fresh "q" in
      destruct c1 as [a1 r1]; destruct c2 as [a2 r2]; cbn [fst snd] in Hr, Hx; subst r2
    end.

  Lemma read_full_aux_resp fuel : forall s1 s2 n acc, A s1 s2 ->
    RespH (read_full_aux S1 fuel s1 n acc) (read_full_aux S2 fuel s2 n acc).
  Proof.
    induction fuel as [|fuel IH]; intros s1 s2 n acc H; cbn [read_full_aux].
    - destruct (n =? 0); apply resp_ret; exact H.
    - destruct (n =? 0); [apply resp_ret; exact H|].
      pose proof (rd_resp s1 s2 n H) as Hrd. use Hrd.
      destruct r as [d|e|c]; [|apply resp_ret; exact Hx..].
      destruct (len d =? 0); [apply resp_ret; exact Hx|].
      destruct (n <? len d); [apply resp_ret; exact Hx|]. apply IH. exact Hx.
  Qed.
  Lemma read_full_resp fuel s1 s2 n : A s1 s2 -> RespH (read_full S1 fuel s1 n) (read_full S2 fuel s2 n).
  Proof. apply read_full_aux_resp. Qed.
  Lemma read_exact_resp fuel s1 s2 n : A s1 s2 -> RespH (read_exact S1 fuel s1 n) (read_exact S2 fuel s2 n).
  Proof.
    intros H. unfold read_exact. pose proof (read_full_resp fuel s1 s2 n H) as Hrf. use Hrf.
    destruct r as [d|e|c]; [|apply resp_ret; exact Hx..].
    destruct (len d <? n); apply resp_ret; exact Hx.
  Qed.
  Lemma rexact_resp s1 s2 n : A s1 s2 -> RespH (rexact S1 s1 n) (rexact S2 s2 n).
  Proof. apply read_exact_resp. Qed.
  Lemma read_u64_resp s1 s2 : A s1 s2 -> RespH (read_u64 S1 s1) (read_u64 S2 s2).
  Proof.
    intros H. unfold read_u64. pose proof (rexact_resp s1 s2 8 H) as Hre. use Hre.
    destruct r; apply resp_ret; exact Hx.
  Qed.

  Variable FN : N.
  Variables TS TC TA TE : N.

  Lemma parse_block_resp s1 s2 : A s1 s2 -> RespH (parse_block FN TS TC TA TE S1 s1) (parse_block FN TS TC TA TE S2 s2).
  Proof.
    intros H. unfold Blocks.parse_block. pose proof (rexact_resp s1 s2 1 H) as H1. use H1.
    destruct r as [[|t [|t2 d]]|e|c]; try (apply resp_ret; exact Hx).
    destruct (t =? TS).
    { pose proof (read_u64_resp a b Hx) as H2. use H2. destruct r as [id|e|c]; [|apply resp_ret; assumption..].
      pose proof (read_u64_resp a0 b0 Hx0) as H3. use H3. destruct r as [l|e|c]; [|apply resp_ret; assumption..].
      destruct (FN <? l); [apply resp_ret; assumption|].
      pose proof (rexact_resp a1 b1 l Hx1) as H4. use H4. destruct r as [nm|e|c]; [|apply resp_ret; assumption..].
      destruct (utf8_valid nm); apply resp_ret; assumption. }
    destruct (t =? TC).
    { pose proof (read_u64_resp a b Hx) as H2. use H2. destruct r as [id|e|c]; [|apply resp_ret; assumption..].
      pose proof (read_u64_resp a0 b0 Hx0) as H3. use H3. destruct r as [l|e|c]; apply resp_ret; assumption. }
    destruct (t =? TE).
    { pose proof (read_u64_resp a b Hx) as H2. use H2. destruct r as [id|e|c]; [|apply resp_ret; assumption..].
      pose proof (rexact_resp a0 b0 32 Hx0) as H3. use H3. destruct r as [h|e|c]; apply resp_ret; assumption. }
    destruct (t =? TA); apply resp_ret; exact Hx.
  Qed.

  Lemma next_block_resp zf id : forall s1 s2, A s1 s2 ->
    RespH (next_block FN TS TC TA TE S1 zf id s1) (next_block FN TS TC TA TE S2 zf id s2).
  Proof.
    induction zf as [|zf IH]; intros s1 s2 H; cbn [Reader.next_block];
      pose proof (parse_block_resp s1 s2 H) as H1; use H1;
      (destruct r as [[i nm|i l|i h|]|e|c]; try (apply resp_ret; exact Hx));
      (destruct ((i =? id) && (l =? 0)); [|apply resp_ret; exact Hx]).
    - apply resp_ret; exact Hx.
    - apply IH. exact Hx.
  Qed.

  (* ---------- BlocksToFileReader ---------- *)
  Definition XBH (b1 : bstate S1) (b2 : bstate S2) : Prop :=
    A (b_src b1) (b_src b2) /\ b_mode b1 = b_mode b2 /\ b_id b1 = b_id b2 /\ b_cur b1 = b_cur b2 /\
    b_offs b1 = b_offs b2.
  Definition RespBH {B} (c1 : bstate S1 * B) (c2 : bstate S2 * B) : Prop := snd c1 = snd c2 /\ XBH (fst c1) (fst c2).

  Lemma xb_mk s1 s2 m i c o : A s1 s2 -> XBH (mkB s1 m i c o) (mkB s2 m i c o).
  Proof. intros H. repeat split; auto. Qed.
  Lemma respB_ret {B} b1 b2 (r : B) : XBH b1 b2 -> RespBH (b1, r) (b2, r).
  Proof. intros H. split; [reflexivity | exact H]. Qed.

  Lemma bmove_resp b1 b2 : XBH b1 b2 -> RespBH (bmove S1 b1) (bmove S2 b2).
  Proof.
    destruct b1 as [s1 m i c o], b2 as [s2 m2 i2 c2 o2]. intros (Hx & Hm & Hi & Hc & Ho). cbn [b_src b_mode b_id b_cur b_offs] in *.
    subst m2 i2 c2 o2. unfold bmove. cbn [b_src b_mode b_id b_cur b_offs].
    destruct (nth_error o (Datatypes.S c)) as [off|]; [|apply respB_ret, xb_mk; exact Hx].
    pose proof (sk_resp s1 s2 off Hx) as H1. use H1.
    destruct r; apply respB_ret, xb_mk; exact Hx0.
  Qed.

  Lemma bread_data_resp b1 b2 s1 s2 rem n : XBH b1 b2 -> A s1 s2 ->
    RespBH (bread_data S1 b1 s1 rem n) (bread_data S2 b2 s2 rem n).
  Proof.
    destruct b1 as [s1' m i c o], b2 as [s2' m2 i2 c2 o2]. intros (_ & Hm & Hi & Hc & Ho) Hx. cbn [b_src b_mode b_id b_cur b_offs] in *.
    subst m2 i2 c2 o2. unfold bread_data, bset. cbn [b_src b_mode b_id b_cur b_offs].
    pose proof (rd_resp s1 s2 (N.min rem n) Hx) as H1. use H1.
    destruct r as [d|e|cc]; [|apply respB_ret, xb_mk; exact Hx0..].
    destruct (rem <? len d); apply respB_ret, xb_mk; exact Hx0.
  Qed.

  Lemma bread_ready_resp zf fuel : forall b1 b2 n, XBH b1 b2 ->
    RespBH (bread_ready FN TS TC TA TE S1 fuel zf b1 n) (bread_ready FN TS TC TA TE S2 fuel zf b2 n).
  Proof.
    induction fuel as [|fuel IH]; intros b1 b2 n HXB; pose proof HXB as HXB';
      destruct b1 as [s1 m i c o], b2 as [s2 m2 i2 c2 o2]; destruct HXB as (Hx & Hm & Hi & Hc & Ho);
      cbn [b_src b_mode b_id b_cur b_offs] in *; subst m2 i2 c2 o2;
      cbn [Reader.bread_ready]; unfold bset; cbn [b_src b_mode b_id b_cur b_offs];
      pose proof (next_block_resp zf i s1 s2 Hx) as H1; use H1;
      (destruct r as [pb|e|cc]; [|apply respB_ret, xb_mk; exact Hx0..]).
    - destruct pb as [j nm|j l|j h|]; try (destruct (j =? i)); try (apply respB_ret, xb_mk; exact Hx0).
      apply (bread_data_resp (mkB a BReady i c o) (mkB b BReady i c o)); [apply xb_mk|]; exact Hx0.
    - assert (Hskip : RespBH
        (match bmove S1 (mkB a BReady i c o) with
         | (b2, Ok _) => bread_ready FN TS TC TA TE S1 fuel zf b2 n
         | (b2, Err e) => (b2, Err e)
         | (b2, Crash c0) => (b2, Crash c0)
         end)
        (match bmove S2 (mkB b BReady i c o) with
         | (b2, Ok _) => bread_ready FN TS TC TA TE S2 fuel zf b2 n
         | (b2, Err e) => (b2, Err e)
         | (b2, Crash c0) => (b2, Crash c0)
         end)).
      { pose proof (bmove_resp (mkB a BReady i c o) (mkB b BReady i c o) (xb_mk _ _ _ _ _ _ Hx0)) as Hm.
        destruct Hm as [Hr Hb]. destruct (bmove S1 (mkB a BReady i c o)) as [ba ra], (bmove S2 (mkB b BReady i c o)) as [bb rb].
        cbn [fst snd] in Hr, Hb. subst rb. destruct ra as [u|e|cc]; [apply IH; exact Hb | apply respB_ret; exact Hb..]. }
      destruct pb as [j nm|j l|j h|]; try (destruct (j =? i)); try exact Hskip; try (apply respB_ret, xb_mk; exact Hx0).
      apply (bread_data_resp (mkB a BReady i c o) (mkB b BReady i c o)); [apply xb_mk|]; exact Hx0.
  Qed.

  Lemma bread_resp zf b1 b2 n : XBH b1 b2 ->
    RespBH (bread FN TS TC TA TE S1 zf b1 n) (bread FN TS TC TA TE S2 zf b2 n).
  Proof.
    intros HXB. pose proof HXB as (Hx & Hm & Hi & Hc & Ho). unfold Reader.bread. rewrite <- Hm, <- Ho.
    destruct (b_mode b1) as [|rem|].
    - apply bread_ready_resp. exact HXB.
    - apply bread_data_resp; assumption.
    - apply respB_ret. exact HXB.
  Qed.

  (* ---------- linear_extract ---------- *)
  Lemma copy_take_resp fuel : forall s1 s2 l acc, A s1 s2 ->
    RespH (copy_take S1 fuel s1 l acc) (copy_take S2 fuel s2 l acc).
  Proof.
    induction fuel as [|fuel IH]; intros s1 s2 l acc H; cbn [copy_take].
    - destruct (l =? 0); apply resp_ret; exact H.
    - destruct (l =? 0); [apply resp_ret; exact H|].
      pose proof (rd_resp s1 s2 (N.min l 8192) H) as Hrd. use Hrd.
      destruct r as [d|e|c]; [|apply resp_ret; exact Hx..].
      destruct (len d =? 0); [apply resp_ret; exact Hx|].
      destruct (l <? len d); [apply resp_ret; exact Hx|]. apply IH. exact Hx.
  Qed.

  Lemma lx_loop_resp fuel : forall s1 s2 export ids acc, A s1 s2 ->
    lx_loop FN TS TC TA TE S1 fuel s1 export ids acc = lx_loop FN TS TC TA TE S2 fuel s2 export ids acc.
  Proof.
    induction fuel as [|fuel IH]; intros s1 s2 export ids acc H; cbn [lx_loop]; [reflexivity|].
    pose proof (parse_block_resp s1 s2 H) as H1. use H1.
    destruct r as [[i nm|i l|i h|]|e|c]; try reflexivity.
    - apply IH. exact Hx.
    - pose proof (copy_take_resp (Datatypes.S fuel) a b l [] Hx) as H2. use H2.
      destruct r as [d|e|c]; try reflexivity.
      destruct (id_lookup ids i); apply IH; exact Hx0.
    - apply IH. exact Hx.
  Qed.

  (* ---------- ArchiveReader ---------- *)
  Definition XRH (r1 : rstate S1) (r2 : rstate S2) : Prop := A (r_src r1) (r_src r2) /\ r_meta r1 = r_meta r2.

  Lemma get_hash_resp r1 r2 name : XRH r1 r2 ->
    snd (get_hash FN TS TC TA TE S1 r1 name) = snd (get_hash FN TS TC TA TE S2 r2 name) /\
    XRH (fst (get_hash FN TS TC TA TE S1 r1 name)) (fst (get_hash FN TS TC TA TE S2 r2 name)).
  Proof.
    destruct r1 as [s1 m], r2 as [s2 m2]. intros [Hx Hm]. cbn [r_src r_meta] in Hx, Hm. subst m2.
    unfold get_hash. cbn [r_meta r_src]. destruct (flookup m name) as [fi|]; [|split; [reflexivity | split; [exact Hx | reflexivity]]].
    pose proof (sk_resp s1 s2 (fi_eof fi) Hx) as H1. use H1.
    destruct r as [v|e|c]; [|split; [reflexivity | split; [exact Hx0 | reflexivity]]..].
    pose proof (parse_block_resp a b Hx0) as H2. use H2.
    destruct r as [[]|e|c]; cbn [fst snd]; (split; [reflexivity | split; [exact Hx1 | reflexivity]]).
  Qed.

  Definition same_fileH (x1 : res (option (bstate S1 * N))) (x2 : res (option (bstate S2 * N))) : Prop :=
    match x1, x2 with
    | Ok (Some (b1, z1)), Ok (Some (b2, z2)) => z1 = z2 /\ XBH b1 b2
    | Ok None, Ok None => True
    | Err e1, Err e2 => e1 = e2
    | Crash c1, Crash c2 => c1 = c2
    | _, _ => False
    end.

  Lemma get_file_resp r1 r2 name : XRH r1 r2 ->
    same_fileH (snd (get_file FN TS TC TA TE S1 r1 name)) (snd (get_file FN TS TC TA TE S2 r2 name)) /\
    XRH (fst (get_file FN TS TC TA TE S1 r1 name)) (fst (get_file FN TS TC TA TE S2 r2 name)).
  Proof.
    destruct r1 as [s1 m], r2 as [s2 m2]. intros [Hx Hm]. cbn [r_src r_meta] in Hx, Hm. subst m2.
    unfold get_file. cbn [r_meta r_src].
    destruct (flookup m name) as [fi|]; [|split; [exact I | split; [exact Hx | reflexivity]]].
    destruct (fi_offsets fi) as [|o0 offs]; [split; [reflexivity | split; [exact Hx | reflexivity]]|].
    pose proof (sk_resp s1 s2 o0 Hx) as H1. use H1.
    destruct r as [v|e|c]; [|split; [reflexivity | split; [exact Hx0 | reflexivity]]..].
    pose proof (parse_block_resp a b Hx0) as H2. use H2.
    destruct r as [[]|e|c]; cbn [fst snd same_fileH]; (split; [|split; [exact Hx1 | reflexivity]]); auto.
    split; [reflexivity|]. apply xb_mk. exact Hx1.
  Qed.

  Lemma linear_extract_resp fuel r1 r2 export : XRH r1 r2 ->
    linear_extract FN TS TC TA TE S1 fuel r1 export = linear_extract FN TS TC TA TE S2 fuel r2 export.
  Proof.
    destruct r1 as [s1 m], r2 as [s2 m2]. intros [Hx Hm]. cbn [r_src r_meta] in Hx, Hm. subst m2.
    unfold linear_extract. cbn [r_src].
    pose proof (sk_resp s1 s2 0 Hx) as H1. use H1.
    destruct r as [v|e|c]; [|reflexivity..].
    apply lx_loop_resp. exact Hx0.
  Qed.
End Sim.

(* ---------- one operation of a history; a whole history ---------- *)
Section SimHist.
  Context {LIM : Limit}.
  Variable k : consts.
  Variables S1 S2 : Stream.
  Variable A : st S1 -> st S2 -> Prop.
  Hypothesis HA : SimRS S1 S2 A.
  Notation TS := Src.BT_FileStart. Notation TC := Src.BT_FileContent.
  Notation TA := Src.BT_EndOfArchiveData. Notation TE := Src.BT_EndOfFile.
  Notation XRH := (XRH S1 S2 A).

  Lemma do_reads_resp zf fuel : forall b1 b2 sizes to_end, XBH S1 S2 A b1 b2 ->
    RespBH S1 S2 A (do_reads k S1 zf fuel b1 sizes to_end) (do_reads k S2 zf fuel b2 sizes to_end).
  Proof.
    induction fuel as [|fuel IH]; intros b1 b2 sizes to_end HXB; cbn [do_reads]; [apply respB_ret; exact HXB|].
    destruct sizes as [|n rest]; [apply respB_ret; exact HXB|].
    pose proof (bread_resp S1 S2 A HA (cFNMAX k) TS TC TA TE zf b1 b2 n HXB) as [Hr Hb].
    destruct (Reader.bread (cFNMAX k) TS TC TA TE S1 zf b1 n) as [ba ra].
    destruct (Reader.bread (cFNMAX k) TS TC TA TE S2 zf b2 n) as [bb rb].
    cbn [fst snd] in Hr, Hb. subst rb.
    destruct ra as [d|e|c]; [|apply respB_ret; exact Hb..].
    destruct (match rest with [] => to_end && negb (len d =? 0) | _ :: _ => true end); [|apply respB_ret; exact Hb].
    pose proof (IH ba bb (match rest with [] => [n] | _ :: _ => rest end) to_end Hb) as [Hr2 Hb2].
    destruct (do_reads k S1 zf fuel ba _ to_end) as [b1' rows1], (do_reads k S2 zf fuel bb _ to_end) as [b2' rows2].
    cbn [fst snd] in Hr2, Hb2. subst rows2. apply respB_ret. exact Hb2.
  Qed.

  Theorem hist_op_resp fuel names r1 r2 op : XRH r1 r2 ->
    snd (hist_op k S1 fuel names r1 op) = snd (hist_op k S2 fuel names r2 op) /\
    XRH (fst (hist_op k S1 fuel names r1 op)) (fst (hist_op k S2 fuel names r2 op)).
  Proof.
    intros HX. pose proof HX as [Hx Hm].
    assert (Hfile : forall i sizes to_end,
      snd (match get_file (cFNMAX k) TS TC TA TE S1 r1 (nth (N.to_nat i) names []) with
           | (r', Ok (Some (b, size))) =>
             let '(b1, rows) := do_reads k S1 fuel fuel b sizes to_end in (mkR (b_src b1) (r_meta r'), [7; size] :: rows)
           | (r', Ok None) => (r', [[4]])
           | (r', x) => (r', [err_row x])
           end) =
      snd (match get_file (cFNMAX k) TS TC TA TE S2 r2 (nth (N.to_nat i) names []) with
           | (r', Ok (Some (b, size))) =>
             let '(b1, rows) := do_reads k S2 fuel fuel b sizes to_end in (mkR (b_src b1) (r_meta r'), [7; size] :: rows)
           | (r', Ok None) => (r', [[4]])
           | (r', x) => (r', [err_row x])
           end) /\
      XRH (fst (match get_file (cFNMAX k) TS TC TA TE S1 r1 (nth (N.to_nat i) names []) with
           | (r', Ok (Some (b, size))) =>
             let '(b1, rows) := do_reads k S1 fuel fuel b sizes to_end in (mkR (b_src b1) (r_meta r'), [7; size] :: rows)
           | (r', Ok None) => (r', [[4]])
           | (r', x) => (r', [err_row x])
           end))
          (fst (match get_file (cFNMAX k) TS TC TA TE S2 r2 (nth (N.to_nat i) names []) with
           | (r', Ok (Some (b, size))) =>
             let '(b1, rows) := do_reads k S2 fuel fuel b sizes to_end in (mkR (b_src b1) (r_meta r'), [7; size] :: rows)
           | (r', Ok None) => (r', [[4]])
           | (r', x) => (r', [err_row x])
           end))).
    { intros i sizes to_end.
      destruct (get_file_resp S1 S2 A HA (cFNMAX k) TS TC TA TE r1 r2 (nth (N.to_nat i) names []) HX) as [Hsf Hxr].
      destruct (get_file (cFNMAX k) TS TC TA TE S1 r1 _) as [ra xa], (get_file (cFNMAX k) TS TC TA TE S2 r2 _) as [rb xb].
      cbn [fst snd] in Hsf, Hxr.
      destruct xa as [[[ba za]|]|ea|ca], xb as [[[bb zb]|]|eb|cb]; cbn [same_fileH] in Hsf; try contradiction;
        try (subst; cbn [fst snd err_row]; split; [reflexivity | exact Hxr]).
      destruct Hsf as [-> Hb].
      destruct (do_reads_resp fuel fuel ba bb sizes to_end Hb) as [Hr2 Hb2].
      destruct (do_reads k S1 fuel fuel ba sizes to_end) as [b1' rows1], (do_reads k S2 fuel fuel bb sizes to_end) as [b2' rows2].
      cbn [fst snd] in Hr2, Hb2 |- *. subst rows2. split; [reflexivity|].
      split; [exact (proj1 Hb2) | exact (proj2 Hxr)]. }
    unfold hist_op.
    destruct op as [|c0 rest]; [split; [reflexivity | exact HX]|].
    destruct c0 as [|p]; [destruct rest; [|split; [reflexivity | exact HX]]|].
    - (* [0]: list_files *)
      unfold list_files. rewrite Hm. split; [reflexivity | exact HX].
    - repeat (destruct p as [p|p|]; try (split; [reflexivity | exact HX]));
        lazymatch goal with
        | |- context [linear_extract] =>
          rewrite (linear_extract_resp S1 S2 A HA (cFNMAX k) TS TC TA TE fuel r1 r2 _ HX);
          destruct (linear_extract _ _ _ _ _ S2 fuel r2 _); (split; [reflexivity | exact HX])
        | |- context [get_hash] =>
          destruct rest as [|i [|? ?]]; try (split; [reflexivity | exact HX]);
          destruct (get_hash_resp S1 S2 A HA (cFNMAX k) TS TC TA TE r1 r2 (nth (N.to_nat i) names []) HX) as [Hr Hxr];
          destruct (get_hash (cFNMAX k) TS TC TA TE S1 r1 _) as [ra xa], (get_hash (cFNMAX k) TS TC TA TE S2 r2 _) as [rb xb];
          cbn [fst snd] in Hr, Hxr; subst xb; destruct xa as [[h|]|e|c]; cbn [fst snd]; (split; [reflexivity | exact Hxr])
        | |- context [do_reads k S1 fuel fuel _ _ true] =>
          destruct rest as [|i [|n [|? ?]]]; try (split; [reflexivity | exact HX]); apply Hfile
        | |- context [get_file] =>
          destruct rest as [|i sizes]; [split; [reflexivity | exact HX]|]; apply Hfile
        end.
  Qed.

  Theorem hist_groups_resp fuel names : forall ops r1 r2, XRH r1 r2 ->
    hist_groups k S1 fuel names r1 ops = hist_groups k S2 fuel names r2 ops.
  Proof.
    induction ops as [|op rest IH]; intros r1 r2 HX; cbn [hist_groups]; [reflexivity|].
    destruct (hist_op_resp fuel names r1 r2 op HX) as [Hr Hx'].
    destruct (hist_op k S1 fuel names r1 op) as [ra rows1], (hist_op k S2 fuel names r2 op) as [rb rows2].
    cbn [fst snd] in Hr, Hx'. subst rows2. f_equal. apply IH. exact Hx'.
  Qed.
End SimHist.
