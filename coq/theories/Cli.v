(* Cli.v — the command LOGIC of mlar (mlar/src/main.rs) as compositions of the library model:
   Archive.archive_write / archive_open, Reader.list_files / get_file / get_hash / reads,
   Reader.linear_extract, Repair.repair, Path.extract_all / extract_linear, Tar.tar_member.

   What a command does is observed through
     cr_ok      exit status 0 (true) or non-zero (false: `Err` -> exit 1, panic -> 101)
     cr_out     the output FILE side: OUntouched = the output path was never opened;
                OWritten b = File::create (create / truncate) was done and b written
     cr_stdout  what goes to standard output (concatenated)
   and, for `extract`, through the model file system of Path.v.

   ORDER OF EVENTS, read off the code (Tie A: Src.CLI_EVENTS, CliProofs.cli_events_src):
     create   writer_from_matches (File::create + header) .. add_file* .. finalize
     list     open_mla_file .. list_files .. (get_file, get_hash)*
     cat      destination_from_output_argument (File::create)  BEFORE  open_mla_file
     to-tar   open_mla_file, THEN destination_from_output_argument, Builder, .., Drop = finish
     convert  open_mla_file, list_files, THEN writer_from_matches, add_file*, finalize
     repair   open_failsafe_mla_file, THEN writer_from_matches, convert_to_archive
     extract  open_mla_file, THEN create_dir / canonicalize, list_files, create_file*
   NOT modelled: clap, reading key files (a key that does not parse is a panic before anything
   else), stderr, humansize's rendering of sizes (`list -v` rows carry the number), the glob forms,
   `-` (stdin) in create, the directory walk (the flattened file list is the input).  The commands
   cmd_extract_* below start at the canonical output directory; the prologue of `extract` (create_dir of a
   missing output directory, canonicalize) is PathDir.extract_prologue and the commands behind it are in
   CliExtractOut.v.
   Definitions only; proofs in CliProofs.v. *)
From MLA Require Import Limit.
From MLA Require Import Base Stream Blocks Writer Reader RoundTripWriter RoundTripReader CompLayer EncLayer Format Ecies Archive Path Tar.
From Coq Require Import Permutation.
From Coq Require Strings.String.
Open Scope N_scope.

(* ---------- sorting names as Vec<String>::sort does (bytewise) ---------- *)
Fixpoint bytes_leb (a b : bytes) : bool :=
  match a, b with
  | [], _ => true
  | _ :: _, [] => false
  | x :: a', y :: b' => if x <? y then true else if y <? x then false else bytes_leb a' b'
  end.
Fixpoint ins_name (x : bytes) (l : list bytes) : list bytes :=
  match l with [] => [x] | h :: t => if bytes_leb x h then x :: l else h :: ins_name x t end.
Definition sort_names (l : list bytes) : list bytes := fold_right ins_name [] l.

(* the keys of `export` in the whole-archive form of `extract`: the pre-pass inserts a FileWriter for a name
   only when create_file returned Ok(Some(..)) (Path.create_all: Created), in the order of the sorted names *)
Definition accepted_names (out : path) (names : list bytes) (f : fs) : list bytes :=
  map fst (snd (fst (create_all out names f))).

(* the content stored under a name (names are distinct in an archive) *)
Definition lookup_file (files : list (bytes * bytes)) (n : bytes) : bytes :=
  match find (fun f => bytes_eqb (fst f) n) files with Some f => snd f | None => [] end.

(* the files in the order every listing command uses *)
Definition sorted_files (files : list (bytes * bytes)) : list (bytes * bytes) :=
  map (fun n => (n, lookup_file files n)) (sort_names (map fst files)).

(* hex::encode *)
Definition hex_chr (v : N) : N := if v <? 10 then 48 + v else 87 + v.
Definition hex_encode (b : bytes) : bytes := flat_map (fun x => [hex_chr (x / 16); hex_chr (x mod 16)]) b.

Inductive outeff := OUntouched | OWritten (b : bytes).
Record cres := mkCR { cr_ok : bool; cr_out : outeff; cr_stdout : bytes }.

Definition NL : N := 10.

(* mlar create: the files in the order add_file_or_dir meets them (directories flattened in
   read_dir order by the caller); length from metadata = the byte count *)
Definition create_ops (files : list (bytes * bytes)) : list wop :=
  map (fun f => OAdd (fst f) (len (snd f)) (snd f)) files.

Section Cli.
  Variables CHUNK TAG CIPHERBUF BLOCK LIMIT FNMAX CACHE : N.
  Local Hint Extern 0 Limit => exact LIMIT : typeclass_instances.
  Variables TS TC TA TE : N.
  Variable H : bytes -> bytes.
  Variable order : footer -> footer.
  Variable pubk : bytes -> bytes.
  Variable dh : bytes -> bytes -> bytes.
  Variable kdf : bytes -> bytes.
  Variables wenc wdec wtag : bytes -> bytes -> bytes.
  Variable ksf : bytes -> bytes -> N -> N -> N.
  Variable tagf : bytes -> bytes -> N -> bytes -> bytes.
  Variable dec : bytes -> bytes.

  Notation archive_write := (archive_write CHUNK CIPHERBUF BLOCK LIMIT FNMAX TS TC TA TE H order pubk dh kdf wenc wtag ksf tagf).
  Notation archive_open := (archive_open CHUNK TAG BLOCK LIMIT dh kdf wdec wtag ksf tagf dec).
  Notation stack_of := (stack_of CHUNK TAG BLOCK ksf tagf dec).
  Notation get_file := (get_file FNMAX TS TC TA TE).
  Notation get_hash := (get_hash FNMAX TS TC TA TE).
  Notation bread := (bread FNMAX TS TC TA TE).

  (* ---------- create ---------- *)
  (* the output file is created (and the header written) before the first file is looked at; a
     failing add_file (`?`: duplicate name, name too long, ...) or finalize leaves an unfinished
     archive behind: the model says OWritten [] for "created, content not a finished archive" *)
  Definition cmd_create (cfg : wconfig) (cut_top cut_mid : list N) (files : list (bytes * bytes)) : cres :=
    match archive_write cfg cut_top cut_mid (create_ops files) with
    | Ok a => mkCR true (OWritten a) []
    | _ => mkCR false (OWritten []) []
    end.

  (* ---------- open_mla_file ---------- *)
  (* readerconfig_from_matches: a -k option sets the expectation "encrypted"; open_mla_file reads
     the header first and refuses (PrivateKeyProvidedButNotUsed) when the archive is not; only then
     ArchiveReader::from_config.  privs = the parsed candidate keys, [] = no -k option *)
  Definition key_given (privs : list bytes) : bool := match privs with [] => false | _ => true end.

  Definition cli_open (a : bytes) (privs : list bytes) : res (opened CHUNK TAG BLOCK ksf tagf dec a) :=
    do hd <- read_header LIMIT a;
    if key_given privs && negb (has_bit (h_layers (fst hd)) L_ENCRYPT) then Err EKey
    else archive_open a privs.

  (* the open fails, whatever the reason *)
  Definition open_fails (a : bytes) (privs : list bytes) : Prop :=
    forall x, cli_open a privs <> Ok x.

  (* ---------- io::copy out of an ArchiveFile: 8 KiB reads until Ok(0) ---------- *)
  (* result: reader afterwards, bytes delivered before the end or the error, and how it ended *)
  Fixpoint io_copy (S : Stream) (zf fuel : nat) (bs : bstate S) (acc : bytes) : bstate S * bytes * res unit :=
    match fuel with
    | O => (bs, acc, Err EFuel)
    | Datatypes.S f =>
      match bread S zf bs 8192 with
      | (bs', Ok []) => (bs', acc, Ok tt)
      | (bs', Ok d) => io_copy S zf f bs' (acc ++ d)
      | (bs', Err e) => (bs', acc, Err e)
      | (bs', Crash c) => (bs', acc, Crash c)
      end
    end.

  (* the ArchiveFile borrows the reader's source: after the copy the reader continues from where
     the copy stopped *)
  Definition after_copy {S : Stream} (r : rstate S) (bs : bstate S) : rstate S := mkR (b_src bs) (r_meta r).

  Section Commands.
    Variable S : Stream.
    Variables zf fuel : nat.

    (* ---------- list ---------- *)
    Definition cmd_list (r : rstate S) : cres :=
      mkCR true OUntouched (flat_map (fun n => n ++ [NL]) (sort_names (list_files S r))).

    (* list -vv: per sorted name get_file (`?`; None = expect -> panic), get_hash likewise.
       Row = (name, size, hash); the line printed is "name - <humansize size> (hex hash)" *)
    Fixpoint list_vv (r : rstate S) (names : list bytes) (acc : list (bytes * N * bytes))
      : list (bytes * N * bytes) * bool :=
      match names with
      | [] => (acc, true)
      | n :: rest =>
        match get_file S r n with
        | (r1, Ok (Some (_, size))) =>
          match get_hash S r1 n with
          | (r2, Ok (Some h)) => list_vv r2 rest (acc ++ [(n, size, h)])
          | _ => (acc, false)
          end
        | _ => (acc, false)
        end
      end.
    Definition cmd_list_verbose (r : rstate S) : list (bytes * N * bytes) * bool :=
      list_vv r (sort_names (list_files S r)) [].
    (* the line of `list -vv` without the size rendering: name, " (", hex, ")" *)
    Definition vv_hash_text (row : bytes * N * bytes) : bytes := hex_encode (snd row).

    (* ---------- cat (names in argument order; clap passes exactly one) ---------- *)
    (* get_file Err / None: a message on stderr and ON TO THE NEXT NAME; a failing copy ends the
       command with `?`.  The exit status is 0 whatever was or was not found.  A PANIC below get_file (a
       layer's seek on hostile bytes) unwinds through the command — cat, convert and extract end there with a
       non-zero status (work package fixcli; to_tar_loop below has no status to report it with: the tarball
       is what had been written, the trailer included — Builder's Drop runs while unwinding). *)
    Fixpoint cat_loop (r : rstate S) (names : list bytes) (acc : bytes) : bytes * bool :=
      match names with
      | [] => (acc, true)
      | n :: rest =>
        match get_file S r n with
        | (r1, Ok (Some (bs, _))) =>
          match io_copy S zf fuel bs [] with
          | (bs', d, Ok _) => cat_loop (after_copy r1 bs') rest (acc ++ d)
          | (_, d, _) => (acc ++ d, false)
          end
        | (_, Crash _) => (acc, false)         (* a panic below get_file unwinds: exit 101 *)
        | (r1, _) => cat_loop r1 rest acc
        end
      end.

    (* ---------- to-tar ---------- *)
    (* sorted names; get_file Err / None: continue; add_file_to_tar's error (a path the tar crate
       refuses, found by the dry run; or a failing copy): message, continue;
       the Builder is dropped at the end of the function: finish() writes the 1024 zero bytes *)
    Fixpoint to_tar_loop (r : rstate S) (names : list bytes) (acc : bytes) : bytes :=
      match names with
      | [] => acc
      | n :: rest =>
        match get_file S r n with
        | (r1, Ok (Some (bs, size))) =>
          (* add_file_to_tar: the dry run on a scratch builder first; a refused path ends it there:
             nothing is read from the ArchiveFile, nothing reaches the tarball *)
          if path_accepted n then
            let '(bs', d, e) := io_copy S zf fuel bs [] in
            to_tar_loop (after_copy r1 bs') rest (acc ++ fst (tar_member n size d (is_ok e)))
          else to_tar_loop r1 rest acc
        | (r1, _) => to_tar_loop r1 rest acc
        end
      end.
    Definition cmd_to_tar_opened (r : rstate S) : bytes :=
      to_tar_loop r (sort_names (list_files S r)) [] ++ TAR_END.

    (* ---------- convert: the add_file calls made on the new writer ---------- *)
    (* get_file Err / None: message, continue (the file is silently absent from the new archive,
       exit status unaffected); add_file reads `size` bytes from the ArchiveFile: a read error
       is add_file's error (`?`).  (The model copies to the end and lets OAdd take `size`; on
       archives written by the library both are the same bytes.) *)
    Fixpoint convert_ops (r : rstate S) (names : list bytes) (acc : list wop) : res (list wop) :=
      match names with
      | [] => Ok acc
      | n :: rest =>
        match get_file S r n with
        | (r1, Ok (Some (bs, size))) =>
          match io_copy S zf fuel bs [] with
          | (bs', d, Ok _) => convert_ops (after_copy r1 bs') rest (acc ++ [OAdd n size d])
          | (_, _, Err e) => Err e
          | (_, _, Crash c) => Crash c
          end
        | (_, Crash c) => Crash c               (* a panic below get_file unwinds *)
        | (r1, _) => convert_ops r1 rest acc
        end
      end.

    (* what the opened archive holds, by the per-file route: sorted names with the bytes copied
       (used to state `extract` with file arguments, one create_file + io::copy per name) *)
    Fixpoint members_of (r : rstate S) (names : list bytes) (acc : list (bytes * bytes)) : res (list (bytes * bytes)) :=
      match names with
      | [] => Ok acc
      | n :: rest =>
        match get_file S r n with
        | (r1, Ok (Some (bs, _))) =>
          match io_copy S zf fuel bs [] with
          | (bs', d, Ok _) => members_of (after_copy r1 bs') rest (acc ++ [(n, d)])
          | (_, _, Err e) => Err e
          | (_, _, Crash c) => Crash c
          end
        | (_, Crash c) => Crash c               (* a panic below get_file unwinds *)
        | (r1, _) => members_of r1 rest acc
        end
      end.
  End Commands.

  (* ---------- the commands on archive bytes ---------- *)
  Definition cmd_list_a (a : bytes) (privs : list bytes) : cres :=
    match cli_open a privs with
    | Ok (existT _ p r) => cmd_list (stack_of a p) r
    | _ => mkCR false OUntouched []
    end.

  Definition cmd_list_verbose_a (a : bytes) (privs : list bytes) : list (bytes * N * bytes) * bool :=
    match cli_open a privs with
    | Ok (existT _ p r) => cmd_list_verbose (stack_of a p) r
    | _ => ([], false)
    end.

  (* cat -o FILE: the destination is created BEFORE the archive is opened; to_file = false is
     `-o -` (the default): standard output *)
  Definition cmd_cat (to_file : bool) (zf fuel : nat) (a : bytes) (privs : list bytes) (names : list bytes) : cres :=
    match cli_open a privs with
    | Ok (existT _ p r) =>
      let '(d, ok) := cat_loop (stack_of a p) zf fuel r names [] in
      if to_file then mkCR ok (OWritten d) [] else mkCR ok OUntouched d
    | _ => mkCR false (if to_file then OWritten [] else OUntouched) []
    end.

  (* to-tar: a failing open returns before the destination is created *)
  Definition cmd_to_tar (zf fuel : nat) (a : bytes) (privs : list bytes) : cres :=
    match cli_open a privs with
    | Ok (existT _ p r) => mkCR true (OWritten (cmd_to_tar_opened (stack_of a p) zf fuel r)) []
    | _ => mkCR false OUntouched []
    end.

  (* convert: open, list, sort; THEN the new writer (output created); add_file*; finalize *)
  Definition cmd_convert (zf fuel : nat) (a : bytes) (privs : list bytes)
             (cfg' : wconfig) (cut_top cut_mid : list N) : cres :=
    match cli_open a privs with
    | Ok (existT _ p r) =>
      match convert_ops (stack_of a p) zf fuel r (sort_names (list_files (stack_of a p) r)) [] with
      | Ok ops =>
        match archive_write cfg' cut_top cut_mid ops with
        | Ok b => mkCR true (OWritten b) []
        | _ => mkCR false (OWritten []) []
        end
      | _ => mkCR false (OWritten []) []
      end
    | _ => mkCR false OUntouched []
    end.

  (* extract, both forms, from the canonical output directory `out` on (Path.v's) file system:
     whole archive = linear_extract into the files create_file prepared for the sorted names;
     with a file argument = per sorted name that matches: get_file, create_file, io::copy *)
  Definition cmd_extract_linear (lfuel : nat) (a : bytes) (privs : list bytes) (out : path) (f : fs) : fs * bool :=
    match cli_open a privs with
    | Ok (existT _ p r) =>
      let names := sort_names (list_files (stack_of a p) r) in
      (* `export` holds a FileWriter only for the names create_file ACCEPTED in the pre-pass: those are the
         keys linear_extract sees (a FileStart of any other name does not bind its id) *)
      match linear_extract FNMAX TS TC TA TE (stack_of a p) lfuel r (accepted_names out names f) with
      | Ok blocks => extract_linear out names blocks f
      | _ =>
        (* the files are created first; the failing walk then ends the command *)
        match create_all out names f with (f1, _, _) => (f1, false) end
      end
    | _ => (f, false)
    end.

  Definition cmd_extract_listed (zf fuel : nat) (a : bytes) (privs : list bytes) (wanted : list bytes)
             (out : path) (f : fs) : fs * bool :=
    match cli_open a privs with
    | Ok (existT _ p r) =>
      let names := filter (fun n => name_in wanted n) (sort_names (list_files (stack_of a p) r)) in
      match members_of (stack_of a p) zf fuel r names [] with
      | Ok ms => extract_all out ms f
      | _ => (f, false)   (* a failing copy: the members before it are not modelled here *)
      end
    | _ => (f, false)
    end.
End Cli.

(* ---------- vocabulary of the statements about created archives ---------- *)
Section CliSpec.
  Variables CHUNK TAG CIPHERBUF BLOCK LIMIT FNMAX : N.
  Local Hint Extern 0 Limit => exact LIMIT : typeclass_instances.
  Variables TS TC TA TE : N.
  Variable H : bytes -> bytes.
  Variable order : footer -> footer.
  Variable pubk : bytes -> bytes.
  Variable dh : bytes -> bytes -> bytes.
  Variable kdf : bytes -> bytes.
  Variables wenc wdec wtag : bytes -> bytes -> bytes.
  Variable ksf : bytes -> bytes -> N -> N -> N.
  Variable tagf : bytes -> bytes -> N -> bytes -> bytes.
  Variable dec : bytes -> bytes.
  Notation to_persistent := (to_persistent pubk dh kdf wenc wtag).

  (* "an archive made by create from these files with this configuration, and a reader holding
     these candidate keys": the premises of C01_archive_roundtrip for the calls create makes, and
     the key policy (no -k option for an archive without encryption).  sf / rs = the writer's final
     state and results (determined by files: first premise); s = the recipient's private key. *)
  Record made_by_create (cfg : wconfig) (files : list (bytes * bytes)) (sf : wstate) (rs : list (res N))
         (privs : list bytes) (s : bytes) : Prop := {
    mc_run : wrun FNMAX TS TC TA TE H order w_init (create_ops files ++ [OFinalize]) = (sf, rs);
    mc_ok : Forall (fun r => is_ok r = true) rs;
    mc_utf8 : forallb (fun f => utf8_valid (fst f)) files = true;
    mc_len64 : len (w_out sf) < 2 ^ 64;
    mc_foot32 : len (ser_footer_map (order (w_footer sf))) < 2 ^ 32;
    mc_comp : wc_compress cfg = true ->
       (forall x, dec (wc_comp cfg x) = x) /\
       (forall j, j < nblocks BLOCK (len (w_out sf)) -> len (wc_comp cfg (block_at BLOCK (w_out sf) j)) < 2 ^ 32) /\
       12 + 4 * nblocks BLOCK (len (w_out sf)) <= LIMIT /\ 12 + 4 * nblocks BLOCK (len (w_out sf)) < 2 ^ 32 /\
       len (w_out sf) < 2 ^ 63;
    mc_enc : wc_encrypt cfg = true ->
       len (wc_key cfg) = 32 /\ len (wc_nonce cfg) = 8 /\
       (forall i c, len (tagf (wc_key cfg) (wc_nonce cfg) i c) = TAG) /\
       (nfull CHUNK (len (mid_of BLOCK cfg (w_out sf))) + 2 < 2 ^ 32 /\ CHUNK + TAG <= 2 ^ 31) /\
       dh s (pubk (wc_eph cfg)) = dh (wc_eph cfg) (pubk s) /\
       In (pubk s) (wc_recipients cfg) /\ In s privs;
    mc_nokey : wc_encrypt cfg = false -> privs = [];
    mc_limit : config_size (to_persistent cfg) <= LIMIT;
    mc_size : len (ser_header (to_persistent cfg) ++ wire_of CHUNK BLOCK ksf tagf cfg (w_out sf)) < 2 ^ 64;
  }.

End CliSpec.

(* the events of each command function in source order: 1 = the input archive is opened,
   2 = an output file / directory is created.  Compared with Src.CLI_EVENTS (Tie A) *)
Import Coq.Strings.String.StringSyntax.
Local Open Scope string_scope.
Definition cli_events : list (bytes * list N) :=
  [ (s2b "create",  [2]);
    (s2b "list",    [1]);
    (s2b "extract", [1; 2; 2; 2]);
    (s2b "cat",     [2; 1]);
    (s2b "to_tar",  [1; 2]);
    (s2b "repair",  [1; 2]);
    (s2b "convert", [1; 2]) ].
