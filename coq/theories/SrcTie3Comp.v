(* SrcTie3Comp.v — Tie A, level 1, for the COMPRESSION READER (work package compT).
   gen/Src3c.v, module Rd (tools/src2v3_comp.py) holds SizesInfo::{uncompressed_block_size_at,
   compressed_block_size_at, max_uncompressed_pos}, CompressionLayerReaderState::into_inner and
   CompressionLayerReader::{new, pos_in_stream, new_decompressor_at, uncompressed_block_size_at,
   sync_inner_with_uncompressed_pos, initialize, Read::read, Seek::seek} translated statement by statement
   from /repo/mla/src/layers/compress.rs over an abstract Stream.  This file proves them equal to the
   hand-written model CompLayer.v for EVERY stream, state, buffer size, seek argument and fuel.
   The writer is in SrcTie3CompW.v, the fail-safe reader in SrcTie3CompFs.v.

   Trusted primitives (see the table in tools/src2v3_comp.py): the brotli decompressor is the model's
   whole-block `decomp` (Decompressor_new = read_full of the Take region + `dec`; reads = dec_read),
   bincode's deserialisation of SizesInfo is `bincode_si` below (the byte layout CompLayer.read_sizes_info
   spells out), `inner.initialize()` is a parameter.
   Type invariants used as hypotheses (facts of the Rust types, not of the data): a `u32` field is below
   2^32 (`wf`), an `i64` seek offset lies in [-2^63, 2^63). *)
From MLA Require Import Limit.
From MLA Require Import Base Stream CompLayer.
From MLAGen Require Src3c.
From Coq Require Import ZifyBool ZifyNat ZifyN.
Open Scope N_scope.

Section Tie.
  Variables BLOCK LIMIT : N.
  Local Hint Extern 0 Limit => exact LIMIT : typeclass_instances.
  Variable dec : bytes -> bytes.
  Variable S : Stream.
  Variable inner_init : st S -> st S * res unit.
  (* labels of the panic sites the model does not have (they are unreachable, which the proofs establish) *)
  Variables site_sub site_index site_add_u32 : N.
  Hypothesis HB32 : BLOCK < 2 ^ 32.        (* UNCOMPRESSED_DATA_SIZE is a u32 constant *)
  Hypothesis HB0 : BLOCK <> 0.             (* … and not zero *)

  Notation CLR := (Src3c.Rd.CompressionLayerReader S).
  Notation RS := (Src3c.Rd.CompressionLayerReaderState S).
  Notation g_pis := (Src3c.Rd.pos_in_stream BLOCK S).
  Notation g_sync := (Src3c.Rd.sync_inner_with_uncompressed_pos BLOCK S).
  Notation g_newdec := (Src3c.Rd.new_decompressor_at BLOCK dec S).
  Notation g_ubs := (Src3c.Rd.uncompressed_block_size_at BLOCK S).
  Notation g_into := (Src3c.Rd.state_into_inner S 186).
  Notation g_read := (Src3c.Rd.comp_read BLOCK dec S site_sub site_index site_add_u32).
  Notation g_seek := (Src3c.Rd.comp_seek BLOCK dec S site_sub 495 529 186).
  Notation clr_state := (Src3c.Rd.clr_state S).
  Notation clr_si := (Src3c.Rd.clr_sizes_info S).
  Notation clr_pos := (Src3c.Rd.clr_underlayer_pos S).

  (* ---------- the Rust data as the model's state ---------- *)
  Definition abs_state (s : RS) : cstate S :=
    match s with
    | Src3c.Rd.Ready _ i => CReady i
    | Src3c.Rd.InData _ r u d => CInData r u d
    | Src3c.Rd.Empty _ => CEmpty
    end.
  Definition abs (x : CLR) : creader S := mkC (abs_state (clr_state x)) (clr_si x) (clr_pos x).
  Definition rep_state (s : cstate S) : RS :=
    match s with
    | CReady i => Src3c.Rd.Ready S i
    | CInData r u d => Src3c.Rd.InData S r u d
    | CEmpty => Src3c.Rd.Empty S
    end.
  Definition rep (c : creader S) : CLR := Src3c.Rd.mkCLR S (rep_state (c_state c)) (c_si c) (c_pos c).
  Lemma abs_rep c : abs (rep c) = c.
  Proof. destruct c as [[i|r u d|] si p]; reflexivity. Qed.
  Lemma rep_abs x : rep (abs x) = x.
  Proof. destruct x as [[i|r u d|] si p]; reflexivity. Qed.

  (* u32 fields are below 2^32 *)
  Definition wf (x : CLR) : Prop :=
    match clr_state x with Src3c.Rd.InData _ r u _ => u < 2 ^ 32 | _ => True end /\
    match clr_si x with Some s => si_last s < 2 ^ 32 | None => True end.

  (* ---------- SizesInfo kernels, pos_in_stream, into_inner ---------- *)
  Lemma si_max_src si : Src3c.Rd.SizesInfo_max_uncompressed_pos BLOCK si = si_max BLOCK si.
  Proof. reflexivity. Qed.
  Lemma si_ubs_src si b : Src3c.Rd.SizesInfo_uncompressed_block_size_at BLOCK si b = si_ubs BLOCK si b.
  Proof. reflexivity. Qed.
  Lemma si_cbs_src si p : Src3c.Rd.SizesInfo_compressed_block_size_at BLOCK si p = si_cbs BLOCK si p.
  Proof. unfold Src3c.Rd.SizesInfo_compressed_block_size_at, si_cbs. reflexivity. Qed.
  Lemma pos_in_stream_src x p : g_pis x p = pos_in_stream BLOCK (clr_si x) p.
  Proof. unfold Src3c.Rd.pos_in_stream, pos_in_stream. destruct (clr_si x); reflexivity. Qed.
  Lemma into_inner_src s : g_into s = into_inner S (abs_state s).
  Proof. destruct s; reflexivity. Qed.

  (* ---------- the three block-start helpers ---------- *)
  Lemma sync_inner_src x i p : g_sync x i p = sync_inner BLOCK S (clr_si x) i p.
  Proof.
    unfold Src3c.Rd.sync_inner_with_uncompressed_pos, sync_inner, block_start_check.
    rewrite pos_in_stream_src.
    destruct (negb (p mod BLOCK =? 0)); [reflexivity|].
    destruct (negb (pos_in_stream BLOCK (clr_si x) p)); [reflexivity|].
    destruct (clr_si x) as [s|]; [|reflexivity].
    destruct (sk S i (FromStart (sum_firstN (si_sizes s) (p / BLOCK)))) as [i' [q|e|c]]; reflexivity.
  Qed.
  Lemma new_decompressor_at_src x i p : g_newdec x i p = new_decompressor_at BLOCK dec S (clr_si x) i p.
  Proof.
    unfold Src3c.Rd.new_decompressor_at, new_decompressor_at, block_start_check, Src3c.Rd.Decompressor_new.
    rewrite pos_in_stream_src.
    destruct (negb (p mod BLOCK =? 0)); [reflexivity|].
    destruct (negb (pos_in_stream BLOCK (clr_si x) p)); [reflexivity|]. cbn [bind].
    destruct (clr_si x) as [s|]; [|reflexivity].
    rewrite si_cbs_src. destruct (si_cbs BLOCK s p) as [c|e|c]; cbn [bind]; try reflexivity.
    destruct (read_full S (dec_fuel c) i c) as [i' [cb|e|c0]]; reflexivity.
  Qed.
  Lemma ubs_at_src x p : g_ubs x p = ubs_at BLOCK (clr_si x) p.
  Proof.
    unfold Src3c.Rd.uncompressed_block_size_at, ubs_at, block_start_check.
    rewrite pos_in_stream_src.
    destruct (negb (p mod BLOCK =? 0)); [reflexivity|].
    destruct (negb (pos_in_stream BLOCK (clr_si x) p)); [reflexivity|]. cbn [bind].
    destruct (clr_si x) as [s|]; reflexivity.
  Qed.

  (* ---------- new ---------- *)
  Theorem comp_new_src i :
    match Src3c.Rd.CompressionLayerReader_new S i with
    | Ok x => comp_new S i = (abs x, Ok tt)
    | Err e => snd (comp_new S i) = Err e
    | Crash c => snd (comp_new S i) = Crash c
    end.
  Proof.
    unfold Src3c.Rd.CompressionLayerReader_new, comp_new.
    destruct (sk S i (FromCur 0)) as [i' [p|e|c]]; reflexivity.
  Qed.

  (* ---------- initialize ---------- *)
  (* bincode::options().with_limit(L).with_fixint_encoding().deserialize_from(inner.take(l)) for SizesInfo:
     the u64 count, then count u32 and one u32, every read charged against L and taken from at most l bytes;
     any failure is reported as an error of bincode (mapped to DeserializationError by the caller) *)
  Definition bincode_si (L l : N) (i3 : st S) : st S * res sizes_info :=
    if l <? 8 then (i3, Err EDeser) else
    sbind S (as_deser S (read_exact S 9 i3 8)) (fun i4 nbytes =>
      let n := le_val nbytes in
      let need := 4 * n + 4 in
      if (L <? 8 + need) || (l - 8 <? need) then (i4, Err EDeser) else
      sbind S (as_deser S (read_exact S (Datatypes.S (N.to_nat need)) i4 need)) (fun i5 body =>
        (i5, Ok (mkSI (parse_u32s (N.to_nat n) body) (le_val (dropN (4 * n) body)))))).
  Lemma bincode_si_errs L l i : forall i' e, bincode_si L l i = (i', Err e) -> e = EDeser.
  Proof.
    unfold bincode_si, sbind, as_deser. intros i' e.
    destruct (l <? 8); [intros [= _ <-]; reflexivity|].
    destruct (read_exact S 9 i 8) as [i4 [nb|e4|c4]]; [|intros [= _ <-]; reflexivity|discriminate].
    cbv zeta. destruct ((L <? 8 + (4 * le_val nb + 4)) || (l - 8 <? 4 * le_val nb + 4)); [intros [= _ <-]; reflexivity|].
    destruct (read_exact S _ i4 _) as [i5 [bd|e5|c5]]; [discriminate|intros [= _ <-]; reflexivity|discriminate].
  Qed.

  Notation g_init := (Src3c.Rd.initialize LIMIT S inner_init bincode_si).

  Theorem comp_initialize_src x :
    let '(x', r) := g_init x in comp_initialize LIMIT S inner_init (abs x) = (abs x', r).
  Proof.
    destruct x as [[i|r u d|] si p]; try reflexivity.
    unfold Src3c.Rd.initialize, comp_initialize, read_sizes_info, abs, sbind.
    cbn [Src3c.Rd.clr_state Src3c.Rd.clr_sizes_info Src3c.Rd.clr_underlayer_pos abs_state c_state c_si c_pos Src3c.Rd.set_clr_state
         Src3c.Rd.set_clr_sizes_info].
    destruct (inner_init i) as [i0 [[]|e|c]]; try reflexivity.
    destruct (sk S i0 (FromEnd (-4))) as [i1 [pos|e|c]]; try reflexivity.
    destruct (read_exact S 5 i1 4) as [i2 [lb|e|c]]; try reflexivity.
    destruct (pos <? le_val lb); [reflexivity|].
    destruct (sk S i2 (FromStart (pos - le_val lb))) as [i3 [q|e|c]]; try reflexivity.
    unfold bincode_si, sbind, as_deser.
    destruct (le_val lb <? 8); [reflexivity|].
    destruct (read_exact S 9 i3 8) as [i4 [nb|e|c]]; try reflexivity.
    cbv zeta.
    destruct ((LIMIT <? 8 + (4 * le_val nb + 4)) || (le_val lb - 8 <? 4 * le_val nb + 4)); [reflexivity|].
    destruct (read_exact S _ i4 _) as [i5 [bd|e|c]]; reflexivity.
  Qed.

  Ltac rsimpl := cbn [Src3c.Rd.clr_state Src3c.Rd.clr_sizes_info Src3c.Rd.clr_underlayer_pos abs abs_state c_state c_si c_pos
           Src3c.Rd.set_clr_state Src3c.Rd.set_clr_underlayer_pos Src3c.Rd.set_clr_sizes_info set_state].

  (* ---------- Read::read = cread_aux, for every fuel ---------- *)
  Lemma dec_read_len (d : decomp S) size : len (snd (dec_read S d size)) <= size.
  Proof.
    unfold dec_read, sliceN, takeN, len; cbn [snd]. rewrite firstn_length. lia.
  Qed.

  Theorem comp_read_sim fuel : forall x n, wf x ->
    let '(x', r) := g_read fuel x n in cread_aux BLOCK dec S fuel (abs x) n = (abs x', r) /\ wf x'.
  Proof.
    induction fuel as [|fuel IH]; intros x n Hwf; [split; [reflexivity|exact Hwf]|].
    cbn [Src3c.Rd.comp_read cread_aux].
    rewrite pos_in_stream_src.
    change (c_si (abs x)) with (clr_si x). change (c_pos (abs x)) with (clr_pos x).
    destruct (negb (pos_in_stream BLOCK (clr_si x) (clr_pos x))); [split; [reflexivity|exact Hwf]|].
    destruct x as [[i|r u d|] si p]; cbv zeta;
      cbn [Src3c.Rd.clr_state Src3c.Rd.clr_sizes_info Src3c.Rd.clr_underlayer_pos abs abs_state c_state c_si c_pos
           Src3c.Rd.set_clr_state Src3c.Rd.set_clr_underlayer_pos set_state].
    - (* Ready *)
      rewrite sync_inner_src. rsimpl.
      destruct (sync_inner BLOCK S si i p) as [i1 [[]|e|c]]; cbv iota beta; try (split; [reflexivity|split; [exact I|apply Hwf]]).
      rewrite new_decompressor_at_src. rsimpl.
      destruct (new_decompressor_at BLOCK dec S si i1 p) as [d|e|c]; cbv iota beta; try (split; [reflexivity|split; [exact I|apply Hwf]]).
      rewrite ubs_at_src. rsimpl.
      destruct (ubs_at BLOCK si p) as [u|e|c] eqn:Eu; cbv iota beta; try (split; [reflexivity|split; [exact I|apply Hwf]]).
      assert (Hw' : wf (Src3c.Rd.mkCLR S (Src3c.Rd.InData S 0 u d) si p)).
      { split; [|apply Hwf]. cbn. unfold ubs_at in Eu. destruct (block_start_check BLOCK si p); try discriminate.
        cbn [bind] in Eu. destruct si as [s|]; [|discriminate]. injection Eu as <-. unfold si_ubs.
        destruct (_ <? _); [exact HB32|]. destruct Hwf as [_ Hs]. exact Hs. }
      specialize (IH (Src3c.Rd.mkCLR S (Src3c.Rd.InData S 0 u d) si p) n Hw').
      exact IH.
    - (* InData *)
      destruct Hwf as [Hu Hs]. cbn in Hu.
      destruct (u <? r) eqn:Eur; [split; [reflexivity|split; [exact I|exact Hs]]|].
      destruct (r =? u) eqn:Eru.
      + specialize (IH (Src3c.Rd.mkCLR S (Src3c.Rd.Ready S (d_in d)) si p) n (conj I Hs)). exact IH.
      + pose proof (dec_read_len d (N.min (u - r) n)) as Hl.
        destruct (N.ltb_spec n (N.min (u - r) n)) as [Hc|_]; [lia|].
        destruct (dec_read S d (N.min (u - r) n)) as [d' data]. cbn [snd] in Hl.
        destruct (N.leb_spec (2 ^ 32) (len data)) as [Hc|_]; [lia|].
        destruct (N.leb_spec (2 ^ 32) (r + len data)) as [Hc|_]; [lia|].
        split; [reflexivity|split; [exact Hu|exact Hs]].
    - split; [reflexivity|split; [exact I|apply Hwf]].
  Qed.

  Corollary comp_read_src x n : wf x ->
    let '(x', r) := g_read 4 x n in cread BLOCK dec S (abs x) n = (abs x', r) /\ wf x'.
  Proof. exact (comp_read_sim 4 x n). Qed.

  (* ---------- Seek::seek = cseek ---------- *)
  Lemma ubs_at_u32 si p u : match si with Some s => si_last s < 2 ^ 32 | None => True end ->
    ubs_at BLOCK si p = Ok u -> u < 2 ^ 32.
  Proof.
    intros Hs Eu. unfold ubs_at in Eu. destruct (block_start_check BLOCK si p); try discriminate.
    cbn [bind] in Eu. destruct si as [s|]; [|discriminate]. injection Eu as <-. unfold si_ubs.
    destruct (_ <? _); [exact HB32|exact Hs].
  Qed.

  (* the part of the Start arm after `old_state.into_inner()` *)
  Lemma seek_go_src (x0 : CLR) si i q : clr_state x0 = Src3c.Rd.Empty S -> clr_si x0 = Some si -> si_last si < 2 ^ 32 ->
    let '(x', r) :=
      match g_sync x0 i (q - q mod BLOCK) with
      | (i1, Ok _) =>
        match g_newdec x0 i1 (q - q mod BLOCK) with
        | Ok d =>
          match g_ubs x0 (q - q mod BLOCK) with
          | Ok u =>
            let '(d', _) := dec_read S d (q mod BLOCK) in
            if 2 ^ 32 <=? q mod BLOCK then (x0, Err EInval)
            else (Src3c.Rd.set_clr_underlayer_pos S (Src3c.Rd.set_clr_state S x0 (Src3c.Rd.InData S (q mod BLOCK) u d')) q, Ok q)
          | Err e => (x0, Err e) | Crash c => (x0, Crash c)
          end
        | Err e => (x0, Err e) | Crash c => (x0, Crash c)
        end
      | (_, Err e) => (x0, Err e) | (_, Crash c) => (x0, Crash c)
      end in
    match sync_inner BLOCK S (Some si) i (q - q mod BLOCK) with
    | (i1, Ok _) =>
      match new_decompressor_at BLOCK dec S (Some si) i1 (q - q mod BLOCK) with
      | Ok d =>
        match ubs_at BLOCK (Some si) (q - q mod BLOCK) with
        | Ok u =>
          let '(d', _) := dec_read S d (q mod BLOCK) in
          if 2 ^ 32 <=? q mod BLOCK then (set_state S (abs x0) CEmpty, Err EInval)
          else (mkC (CInData (q mod BLOCK) u d') (Some si) q, Ok q)
        | Err e => (set_state S (abs x0) CEmpty, Err e) | Crash c => (set_state S (abs x0) CEmpty, Crash c)
        end
      | Err e => (set_state S (abs x0) CEmpty, Err e) | Crash c => (set_state S (abs x0) CEmpty, Crash c)
      end
    | (_, Err e) => (set_state S (abs x0) CEmpty, Err e) | (_, Crash c) => (set_state S (abs x0) CEmpty, Crash c)
    end = (abs x', r) /\ wf x'.
  Proof.
    intros He Hsi Hl. destruct x0 as [st0 si0 p0]. cbn in He, Hsi. subst st0 si0.
    assert (W0 : wf (Src3c.Rd.mkCLR S (Src3c.Rd.Empty S) (Some si) p0)) by (split; [exact I|exact Hl]).
    rewrite sync_inner_src, ubs_at_src. rsimpl.
    destruct (sync_inner BLOCK S (Some si) i (q - q mod BLOCK)) as [i1 [[]|e|c]]; try (split; [reflexivity|exact W0]).
    rewrite new_decompressor_at_src. rsimpl.
    destruct (new_decompressor_at BLOCK dec S (Some si) i1 (q - q mod BLOCK)) as [d|e|c]; try (split; [reflexivity|exact W0]).
    destruct (ubs_at BLOCK (Some si) (q - q mod BLOCK)) as [u|e|c] eqn:Eu; try (split; [reflexivity|exact W0]).
    destruct (dec_read S d (q mod BLOCK)) as [d' sk0].
    destruct (2 ^ 32 <=? q mod BLOCK); [split; [reflexivity|exact W0]|].
    split; [reflexivity|]. split; [|exact Hl]. cbn. exact (ubs_at_u32 (Some si) _ u Hl Eu).
  Qed.

  Lemma seek_start_src fuel x q : wf x ->
    let '(x', r) := g_seek (Datatypes.S fuel) x (FromStart q) in
    cseek_start BLOCK dec S (abs x) q = (abs x', r) /\ wf x'.
  Proof.
    intros Hwf. cbn [Src3c.Rd.comp_seek]. unfold cseek_start.
    change (c_si (abs x)) with (clr_si x).
    destruct (clr_si x) as [si|] eqn:Esi; [|split; [reflexivity|exact Hwf]].
    assert (Hmod : q mod BLOCK <= q) by (apply N.mod_le; exact HB0).
    assert (Hl : si_last si < 2 ^ 32) by (destruct Hwf as [_ Hs]; rewrite Esi in Hs; exact Hs).
    destruct x as [st0 si0 p]. cbn in Esi. subst si0.
    destruct st0 as [i|r u d|]; rsimpl; [| |split; [reflexivity|exact Hwf]].
    all: unfold cseek_start_go; cbv zeta; rewrite pos_in_stream_src, si_max_src; rsimpl;
      (destruct (N.ltb_spec q (q mod BLOCK)) as [Hc|_]; [lia|]);
      destruct (negb (pos_in_stream BLOCK (Some si) (q - q mod BLOCK)));
      [ destruct (negb (q =? si_max BLOCK si)); (split; [reflexivity|]); [exact Hwf|split; [exact I|exact Hl]] | ];
      cbn [Src3c.Rd.state_into_inner into_inner d_in].
    - exact (seek_go_src (Src3c.Rd.mkCLR S (Src3c.Rd.Empty S) (Some si) p) si i q eq_refl eq_refl Hl).
    - exact (seek_go_src (Src3c.Rd.mkCLR S (Src3c.Rd.Empty S) (Some si) p) si (d_in d) q eq_refl eq_refl Hl).
  Qed.

  Definition i64_range (w : whence) : Prop :=
    match w with FromStart _ => True | FromCur d | FromEnd d => (- 2 ^ 63 <= d < 2 ^ 63)%Z end.

  Theorem comp_seek_sim fuel x w : wf x -> i64_range w ->
    let '(x', r) := g_seek (Datatypes.S (Datatypes.S fuel)) x w in
    cseek BLOCK dec S (abs x) w = (abs x', r) /\ wf x'.
  Proof.
    intros Hwf Hr.
    destruct w as [q|d|d].
    - (* Start *)
      pose proof (seek_start_src (Datatypes.S fuel) x q Hwf) as H.
      destruct (g_seek (Datatypes.S (Datatypes.S fuel)) x (FromStart q)) as [x' r].
      unfold cseek. change (c_si (abs x)) with (clr_si x).
      destruct (clr_si x) eqn:Esi; [exact H|].
      unfold cseek_start in H. change (c_si (abs x)) with (clr_si x) in H. rewrite Esi in H. exact H.
    - (* Current *)
      cbn [i64_range] in Hr.
      pose proof (fun q => seek_start_src fuel x q Hwf) as Hs.
      remember (Datatypes.S fuel) as f1. cbn [Src3c.Rd.comp_seek]. unfold cseek.
      change (c_si (abs x)) with (clr_si x). change (c_pos (abs x)) with (clr_pos x).
      destruct (clr_si x) as [si|] eqn:Esi; [|split; [reflexivity|exact Hwf]].
      destruct (d =? 0)%Z eqn:Ed; [split; [reflexivity|exact Hwf]|].
      destruct (clr_pos x <? 2 ^ 63) eqn:Ep; [|split; [reflexivity|exact Hwf]].
      cbv zeta.
      destruct (Z.leb_spec (2 ^ 63) (d + Z.of_N (clr_pos x))) as [Hhi|Hhi]; cbn [orb].
      + split; [reflexivity|exact Hwf].
      + destruct (Z.ltb_spec (d + Z.of_N (clr_pos x)) (- 2 ^ 63)) as [Hlo|Hlo]; [lia|].
        destruct (Z.leb_spec 0 (d + Z.of_N (clr_pos x))) as [H0|H0]; [|split; [reflexivity|exact Hwf]].
        destruct (Z.ltb_spec (d + Z.of_N (clr_pos x)) 0) as [Hc|_]; [lia|].
        subst f1. exact (Hs (Z.to_N (d + Z.of_N (clr_pos x)))).
    - (* End *)
      cbn [i64_range] in Hr.
      pose proof (fun q => seek_start_src fuel x q Hwf) as Hs.
      remember (Datatypes.S fuel) as f1. cbn [Src3c.Rd.comp_seek]. unfold cseek, end_target.
      change (c_si (abs x)) with (clr_si x).
      destruct (clr_si x) as [si|] eqn:Esi; [|split; [reflexivity|exact Hwf]].
      destruct (0 <? d)%Z eqn:Ed; [split; [reflexivity|exact Hwf]|].
      rewrite si_max_src.
      destruct (d =? - 2 ^ 63)%Z eqn:Em; [split; [reflexivity|exact Hwf]|].
      destruct (Z.leb_spec 0 (- d)) as [H0|H0]; [|lia].
      destruct (Z.ltb_spec (- d) 0) as [Hc|_]; [lia|].
      destruct (N.leb_spec (Z.to_N (- d)) (si_max BLOCK si)) as [Hle|Hgt].
      + destruct (N.ltb_spec (si_max BLOCK si) (Z.to_N (- d))) as [Hc|_]; [lia|].
        subst f1. exact (Hs (si_max BLOCK si - Z.to_N (- d))).
      + destruct (N.ltb_spec (si_max BLOCK si) (Z.to_N (- d))) as [_|Hc]; [|lia].
        split; [reflexivity|exact Hwf].
  Qed.

  (* ---------- the translated reader as a Stream: every refinement theorem of the model carries over ---------- *)
  Definition SrcCompReader : Stream :=
    {| st := CLR; rd := g_read 4; sk := g_seek 2 |}.

  Theorem src_comp_reader_refines (b : bytes) (Rm : creader S -> N -> Prop) : len b < 2 ^ 63 ->
    Refines (CompReader BLOCK dec S) b Rm ->
    Refines SrcCompReader b (fun x p => wf x /\ Rm (abs x) p).
  Proof.
    intros Hb [Hrange Hrd Hsk]. constructor.
    - intros x p [_ H]. exact (Hrange _ _ H).
    - intros x p n [Hw H]. destruct (Hrd _ _ n H) as (c' & k & E & H1 & H2 & H3 & H4).
      cbn [rd SrcCompReader CompReader] in *.
      pose proof (comp_read_src x n Hw) as Hs. destruct (g_read 4 x n) as [x' r].
      destruct Hs as [Hs Hw']. rewrite Hs in E. injection E as <- ->.
      exists x', k. split; [reflexivity|]. exact (conj H1 (conj H2 (conj H3 (conj Hw' H4)))).
    - intros x p w q [Hw H] Ht. destruct (Hsk _ _ w q H Ht) as (c' & E & H1).
      cbn [sk SrcCompReader CompReader] in *.
      assert (Hi : i64_range w).
      { pose proof (Hrange _ _ H) as Hp. unfold target in Ht. destruct w as [q0|d|d]; cbn [i64_range]; [exact I| |].
        - destruct ((0 <=? Z.of_N p + d) && (Z.of_N p + d <=? Z.of_N (len b)))%Z eqn:E0; [|discriminate]. lia.
        - destruct ((0 <=? Z.of_N (len b) + d) && (Z.of_N (len b) + d <=? Z.of_N (len b)))%Z eqn:E0; [|discriminate]. lia. }
      pose proof (comp_seek_sim 0 x w Hw Hi) as Hs. destruct (g_seek 2 x w) as [x' r].
      destruct Hs as [Hs Hw']. rewrite Hs in E. injection E as <- ->.
      exists x'. split; [reflexivity|]. split; assumption.
  Qed.
End Tie.
