(* Fresh.v — randomness as an explicit resource (work package c07rng, property C07).

   What the code does (read in /repo):
     encrypt.rs  EncryptionConfig::default      let mut csprng = ChaChaRng::from_os_rng();
                                                let key = csprng.random::<Key>();            32 x (next_u32() as u8)
                                                let nonce = csprng.random::<[u8; 8]>();       8 x (next_u32() as u8)
                 EncryptionConfig::to_persistent let mut rng = ChaChaRng::from_os_rng();      a NEW generator per call
                                                store_key_for_multi_recipients(.., &mut rng)
     ecc.rs      store_key_for_multi_recipients  csprng.fill_bytes(&mut [0u8; 32]) -> ephemeral scalar; public = PublicKey::from
     config.rs   ArchiveWriterConfig::new / default   encrypt: EncryptionConfig::default()
                 enable_layer / disable_layer / set_layers : one assignment to layers_enabled
     encrypt.rs  add_public_keys                 self.encrypt.ecc_keys.extend_from_slice(keys)
     compress.rs with_compression_level          level > 11 -> Err, else one assignment
     lib.rs      ArchiveWriter::from_config(dest, config)   config BY VALUE; check() first, then
                                                 to_persistent (only when ENCRYPT is enabled), then the layers
                 ArchiveWriter::new(dest, keys)  default + add_public_keys + from_config
     rand 0.9    StandardUniform for [u8; N] samples element by element, u8 = next_u32() as u8: byte i of the
                 array is the LOW byte of the i-th 32-bit word = byte 4i of the ChaCha20 output (little endian);
                 fill_bytes of 32 bytes on a fresh generator = output bytes 0..31
     rand_core   from_os_rng = getrandom::fill(seed) ; from_seed(seed)

   Model: a STATE-PASSING machine.
     entropy : nat -> bytes    the i-th request made to the OS generator BY ANYONE (the kernel generator is one
                               resource shared by all processes and threads: the world counter is global)
     expand  : bytes -> N -> bytes   the first n output bytes of ChaCha20Rng::from_seed(seed)
                               (executable instance: Concrete/ChaCha20.chacha20_rng_bytes)
     gen = (seed, index of the next 32-bit word); every draw returns the new generator state.
   A trace is ANY list of events (pid, tid, handle, call): interleavings of processes and threads are
   lists; the semantics does not look at pid / tid except to keep the handles of different processes
   apart.  Definitions only; proofs in FreshProofs.v.

   NOT modelled: fork() duplicating a live configuration, memory disclosure, a failing getrandom
   (from_os_rng panics: no archive), the quality of the OS generator (that is the hypothesis). *)
From MLA Require Import Base Builders.
Open Scope N_scope.

Section Fresh.
  Variable entropy : nat -> bytes.
  Variable expand : bytes -> N -> bytes.
  Variable pubk : bytes -> bytes.                 (* PublicKey::from(&StaticSecret) *)
  Variables L_DEFAULT LEVEL_DEFAULT L_ENC : N.    (* Layers::default(), DEFAULT_COMPRESSION_LEVEL, Layers::ENCRYPT *)

  (* ---------- the generator ---------- *)
  Record gen := mkG { g_seed : bytes; g_word : N }.

  (* ChaChaRng::from_os_rng(): ONE request to the OS, a generator at word 0 *)
  Definition from_os_rng (w : nat) : gen * nat := (mkG (entropy w) 0, S w).

  (* next_u32() as u8 *)
  Definition next_u8 (g : gen) : N * gen :=
    (nth (N.to_nat (4 * g_word g)) (expand (g_seed g) (4 * g_word g + 4)) 0, mkG (g_seed g) (g_word g + 1)).

  (* random::<[u8; n]>() *)
  Fixpoint random_u8s (n : nat) (g : gen) : bytes * gen :=
    match n with
    | O => ([], g)
    | S n' => let '(b, g1) := next_u8 g in let '(r, g2) := random_u8s n' g1 in (b :: r, g2)
    end.

  (* fill_bytes(&mut [0u8; n]) at a word boundary: whole words, a partly used word is dropped *)
  Definition fill_bytes (n : N) (g : gen) : bytes * gen :=
    (sliceN (4 * g_word g) n (expand (g_seed g) (4 * g_word g + n)), mkG (g_seed g) (g_word g + (n + 3) / 4)).

  (* ---------- EncryptionConfig::default ---------- *)
  Definition enc_default (w : nat) : bytes * bytes * nat :=
    let '(g0, w1) := from_os_rng w in
    let '(key, g1) := random_u8s 32 g0 in
    let '(nonce, _) := random_u8s 8 g1 in
    (key, nonce, w1).

  (* the three secrets as functions of a seed *)
  Definition key_of (seed : bytes) : bytes := fst (random_u8s 32 (mkG seed 0)).
  Definition nonce_of (seed : bytes) : bytes := fst (random_u8s 8 (snd (random_u8s 32 (mkG seed 0)))).
  Definition eph_of (seed : bytes) : bytes := fst (fill_bytes 32 (mkG seed 0)).

  (* ---------- ArchiveWriterConfig ---------- *)
  Record wcfg := mkCfg {
    c_layers : N;               (* layers_enabled *)
    c_level : N;                (* compress.compression_level *)
    c_key : bytes;              (* encrypt.key *)
    c_nonce : bytes;            (* encrypt.nonce *)
    c_recips : list bytes;      (* encrypt.ecc_keys *)
    c_req : nat;                (* ghost: the OS request that seeded the generator of its default() *)
  }.

  Definition cfg_new (w : nat) : wcfg * nat :=
    let '(k, n, w1) := enc_default w in (mkCfg 0 LEVEL_DEFAULT k n [] w, w1).
  Definition cfg_default (w : nat) : wcfg * nat :=
    let '(k, n, w1) := enc_default w in (mkCfg L_DEFAULT LEVEL_DEFAULT k n [] w, w1).

  (* the builders (Builders.v on the layer bits; Tie A: SrcTie2b.cfg_builders_src, SrcTie3Fresh) *)
  Definition b_enable (c : wcfg) (l : N) : wcfg :=
    mkCfg (enable_layer (c_layers c) l) (c_level c) (c_key c) (c_nonce c) (c_recips c) (c_req c).
  Definition b_disable (c : wcfg) (l : N) : wcfg :=
    mkCfg (disable_layer (c_layers c) l) (c_level c) (c_key c) (c_nonce c) (c_recips c) (c_req c).
  Definition b_set_layers (c : wcfg) (l : N) : wcfg :=
    mkCfg (set_layers (c_layers c) l) (c_level c) (c_key c) (c_nonce c) (c_recips c) (c_req c).
  Definition b_add_keys (c : wcfg) (ks : list bytes) : wcfg :=
    mkCfg (c_layers c) (c_level c) (c_key c) (c_nonce c) (c_recips c ++ ks) (c_req c).
  Definition b_level (c : wcfg) (lvl : N) : wcfg :=
    if 11 <? lvl then c else mkCfg (c_layers c) lvl (c_key c) (c_nonce c) (c_recips c) (c_req c).

  (* ---------- calls, events ---------- *)
  Definition files := list (bytes * bytes).       (* names and contents written into the archive *)
  Inductive call :=
  | CNew                                   (* let h = ArchiveWriterConfig::new() *)
  | CDefault                               (* let h = ArchiveWriterConfig::default() *)
  | CEnable (l : N) | CDisable (l : N) | CSetLayers (l : N)
  | CAddKeys (ks : list bytes)
  | CLevel (lvl : N)
  | CToPersistent                          (* h.to_persistent() called directly (it is pub) *)
  | CCreate (fs : files)                   (* ArchiveWriter::from_config(dest, h) ... finalize: h is consumed *)
  | CWriterNew (ks : list bytes) (fs : files).   (* ArchiveWriter::new(dest, ks) ... finalize *)
  Record evt := mkEv { e_pid : N; e_tid : N; e_h : N; e_call : call }.

  (* ---------- what an archive holds ---------- *)
  Record arch := mkA {
    a_pid : N; a_h : N;
    a_enc : bool;                (* Layers::ENCRYPT enabled: only then are there secrets *)
    a_key : bytes; a_nonce : bytes;
    a_eph : bytes;               (* the ephemeral scalar *)
    a_epub : bytes;              (* the ephemeral public key of the header *)
    a_layers : N; a_level : N;
    a_recips : list bytes;
    a_files : files;
    a_cfg_req : nat; a_wrap_req : nat;   (* ghost: the two OS requests behind its secrets *)
  }.

  (* from_config: check() (an enabled encryption needs a recipient) BEFORE to_persistent; to_persistent
     seeds its own generator, only when the layer is enabled *)
  Definition from_config (pid h : N) (c : wcfg) (fs : files) (w : nat) : option arch * nat :=
    let enc := is_layers_enabled (c_layers c) L_ENC in
    if enc && match c_recips c with [] => true | _ => false end then (None, w)
    else if enc then
      let '(g0, w1) := from_os_rng w in
      let '(eph, _) := fill_bytes 32 g0 in
      (Some (mkA pid h true (c_key c) (c_nonce c) eph (pubk eph) (c_layers c) (c_level c) (c_recips c) fs (c_req c) w), w1)
    else (Some (mkA pid h false [] [] [] [] (c_layers c) (c_level c) (c_recips c) fs (c_req c) w), w).

  (* ---------- the machine ---------- *)
  Definition hkey := (N * N)%type.               (* (process, handle) *)
  Definition hkey_eqb (a b : hkey) : bool := (fst a =? fst b) && (snd a =? snd b).
  Definition table := list (hkey * wcfg).
  Definition t_lookup (k : hkey) (t : table) : option wcfg :=
    match find (fun e => hkey_eqb (fst e) k) t with Some e => Some (snd e) | None => None end.
  Definition t_remove (k : hkey) (t : table) : table := filter (fun e => negb (hkey_eqb (fst e) k)) t.
  Definition t_bind (k : hkey) (c : wcfg) (t : table) : table := (k, c) :: t_remove k t.
  Definition t_update (k : hkey) (f : wcfg -> wcfg) (t : table) : table :=
    map (fun e => if hkey_eqb (fst e) k then (fst e, f (snd e)) else e) t.

  Record mstate := mkM { m_w : nat; m_tab : table; m_out : list arch }.
  Definition m_init : mstate := mkM O [] [].

  Definition opt_list {A} (o : option A) : list A := match o with Some a => [a] | None => [] end.

  Definition builder_of (cl : call) : option (wcfg -> wcfg) :=
    match cl with
    | CEnable l => Some (fun c => b_enable c l)
    | CDisable l => Some (fun c => b_disable c l)
    | CSetLayers l => Some (fun c => b_set_layers c l)
    | CAddKeys ks => Some (fun c => b_add_keys c ks)
    | CLevel lvl => Some (fun c => b_level c lvl)
    | _ => None
    end.

  Definition step (m : mstate) (e : evt) : mstate :=
    let k := (e_pid e, e_h e) in
    match e_call e with
    | CNew => let '(c, w1) := cfg_new (m_w m) in mkM w1 (t_bind k c (m_tab m)) (m_out m)
    | CDefault => let '(c, w1) := cfg_default (m_w m) in mkM w1 (t_bind k c (m_tab m)) (m_out m)
    | CWriterNew ks fs =>
      let '(c, w1) := cfg_default (m_w m) in
      let '(oa, w2) := from_config (e_pid e) (e_h e) (b_add_keys c ks) fs w1 in
      mkM w2 (m_tab m) (m_out m ++ opt_list oa)
    | CCreate fs =>
      match t_lookup k (m_tab m) with
      | Some c =>
        let '(oa, w1) := from_config (e_pid e) (e_h e) c fs (m_w m) in
        mkM w1 (t_remove k (m_tab m)) (m_out m ++ opt_list oa)
      | None => m
      end
    | CToPersistent =>
      match t_lookup k (m_tab m) with
      | Some c => if is_layers_enabled (c_layers c) L_ENC then mkM (S (m_w m)) (m_tab m) (m_out m) else m
      | None => m
      end
    | cl =>
      match builder_of cl with
      | Some f => mkM (m_w m) (t_update k f (m_tab m)) (m_out m)
      | None => m
      end
    end.

  Definition run (m : mstate) (t : list evt) : mstate := fold_left step t m.

  (* the OS requests behind the secrets of an archive *)
  Definition areqs (a : arch) : list nat := if a_enc a then [a_cfg_req a; a_wrap_req a] else [].
  Definition reqs_out (l : list arch) : list nat := flat_map areqs l.
  Definition reqs_tab (t : table) : list nat := map (fun e => c_req (snd e)) t.

  (* ---------- erasing the inputs ---------- *)
  (* file names and contents, the VALUES of the recipient keys and the compression level are wiped; the
     layer bits stay (they decide whether there is an encryption layer at all) and so does the NUMBER of
     recipient keys (an encrypting configuration without any is refused) *)
  Definition erase_call (cl : call) : call :=
    match cl with
    | CAddKeys ks => CAddKeys (map (fun _ => []) ks)
    | CLevel _ => CLevel 0
    | CCreate _ => CCreate []
    | CWriterNew ks _ => CWriterNew (map (fun _ => []) ks) []
    | x => x
    end.
  Definition erase (e : evt) : evt := mkEv (e_pid e) (e_tid e) (e_h e) (erase_call (e_call e)).
  (* the secrets of an archive and the requests behind them *)
  Definition secrets (a : arch) : bool * bytes * bytes * bytes * nat * nat :=
    (a_enc a, a_key a, a_nonce a, a_eph a, a_cfg_req a, a_wrap_req a).
End Fresh.
