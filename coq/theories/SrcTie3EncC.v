(* SrcTie3EncC.v — Tie A, level 1, carried theorems: what is proved of the MODEL of the encryption readers
   (EncLayerProofs.enc_reader_refines: C11; EncAuthFs.fs_auth_refines / fs_unauth_refines / fs_open_auth: C04)
   holds of the functions TRANSLATED from /repo/mla/src/layers/encrypt.rs (gen/Src3e.v), through the
   simulations of SrcTie3Enc.v. *)
From MLA Require Import Base Stream EncLayer EncLayerProofs EncAuth EncAuthFs SrcTie3Enc.
From MLAGen Require Src3e.
From Coq Require Import ZifyBool ZifyNat ZifyN.
Open Scope N_scope.

Section Carried.
  Variable S : Stream.
  Variables CHUNK TAG : N.
  Variable ks : N -> N -> N.
  Variable tagc : N -> bytes -> bytes.
  Variable site_index : N.
  Hypothesis HCHUNK : 0 < CHUNK.

  Notation ELI := (Src3e.EncryptionLayerInternal S).
  Notation FSR := (Src3e.EncryptionLayerFailSafeReader S).
  Notation fuel_rd := (rd_fuel CHUNK TAG).
  Notation g_read := (Src3e.elr_read S CHUNK TAG ks tagc fuel_rd 416 site_index 419).
  Notation g_seek := (Src3e.elr_seek S CHUNK TAG ks tagc fuel_rd 416 site_index 524).
  Notation g_fs_read := (Src3e.fs_read S CHUNK TAG ks tagc fuel_rd 416 site_index 419).
  Notation g_fs_new := (Src3e.EncryptionLayerFailSafeReader_new S CHUNK TAG ks fuel_rd).
  Notation abs := (abs S).
  Notation abs_fs := (abs_fs S).

  (* the translated reader as a Stream (any fuel >= 2: the recursion of read_internal / seek is one deep) *)
  Definition EncReaderSrc (fuel : nat) : Stream :=
    {| st := ELI; rd := g_read (Datatypes.S (Datatypes.S fuel)); sk := g_seek (Datatypes.S (Datatypes.S fuel)) |}.

  (* ---------- C11 ---------- *)
  Section C11.
    Hypothesis HTAG : 0 < TAG.
    Hypothesis Htag : forall i c, len (tagc i c) = TAG.
    Variable plain : bytes.
    Variable Rin : st S -> N -> Prop.
    Hypothesis Hin : Refines S (enc_format CHUNK ks tagc plain) Rin.
    Hypothesis Hbig : nfull CHUNK (len plain) + 2 < 2 ^ 32.
    (* the u64 / i64 ranges of the Rust arithmetic: every tag-aware position of the stream fits a u64 (the D20
       guard never fires on a position of the plaintext) and the plaintext length fits an i64.  Since fixenc these
       are premises of the MODEL theorem EncLayerProofs.enc_reader_refines (the model has the guard and the range
       tests); the simulation SrcTie3Enc.enc_seek_sim needs no range premise any more. *)
    Hypothesis Hu64 : (len plain / CHUNK + 1) * (CHUNK + TAG) <= 2 ^ 64 - 1.
    Hypothesis Hi64 : len plain < 2 ^ 63.

    Notation Renc := (Renc CHUNK TAG ks tagc S plain Rin).

    Lemma cts_fits_of_bound : cts_fits CHUNK TAG.
    Proof.
      unfold cts_fits, Src3e.U64_MAX. apply N.div_le_lower_bound; [lia|].
      set (X := len plain / CHUNK) in *. rewrite N.mul_1_r. assert (Hm : 1 * (CHUNK + TAG) <= (X + 1) * (CHUNK + TAG)) by (apply N.mul_le_mono_r; lia). lia.
    Qed.
    (* the TRANSLATED EncryptionLayerReader (read, seek from start / current / end) behaves as a cursor over
       the plaintext, over any inner stream that behaves as a cursor over its wire form *)
    Theorem enc_reader_refines_src fuel :
      Refines (EncReaderSrc fuel) plain (fun x p => Renc (abs x) p).
    Proof.
      pose proof (enc_reader_refines CHUNK TAG HCHUNK HTAG ks tagc Htag S plain Rin Hin Hbig Hu64 Hi64) as HM.
      constructor.
      - intros x p HR. exact (ref_range _ _ _ HM _ _ HR).
      - intros x p n HR. cbn [EncReaderSrc rd st].
        destruct (ref_rd _ _ _ HM (abs x) p n HR) as (s' & k & Hrd & H1 & H2 & H3 & H4).
        pose proof (enc_read_sim S CHUNK TAG ks tagc site_index HCHUNK fuel x n) as Hs.
        rewrite Hrd in Hs. destruct (g_read _ x n) as [x' r]. unfold absr in Hs. cbn [fst snd] in Hs.
        injection Hs as Hx ->. exists x', k. rewrite Hx. auto.
      - intros x p w q HR Ht. cbn [EncReaderSrc sk st].
        destruct (ref_sk _ _ _ HM (abs x) p w q HR Ht) as (s' & Hsk & HR').
        pose proof (enc_seek_sim S CHUNK TAG ks tagc site_index fuel x w cts_fits_of_bound) as Hs.
        rewrite Hsk in Hs. destruct (g_seek _ x w) as [x' r]. unfold absr in Hs. cbn [fst snd] in Hs.
        injection Hs as Hx ->. exists x'. rewrite Hx. auto.
    Qed.

    (* new + initialize establish the invariant (the inner layer's own initialize succeeding) *)
    Theorem enc_open_spec_src fuel (inner_init : st S -> st S * res unit) i0 i1 pin x :
      Src3e.EncryptionLayerReader_new S i0 (Some tt) = Ok x -> inner_init i0 = (i1, Ok tt) -> Rin i1 pin ->
      exists x', Src3e.elr_initialize S CHUNK TAG ks tagc fuel_rd inner_init 416 site_index 524 (Datatypes.S fuel) x = (x', Ok tt) /\
                 Renc (abs x') 0.
    Proof.
      intros Hnew Hi HR.
      pose proof (enc_open_src S CHUNK TAG ks tagc site_index inner_init fuel i0 i1 x cts_fits_of_bound Hnew Hi) as Hs.
      destruct (enc_open_spec CHUNK TAG HCHUNK HTAG ks tagc Htag S plain Rin Hin Hbig Hu64 Hi64 i1 pin HR) as (s & Ho & HRs).
      rewrite Ho in Hs. destruct (Src3e.elr_initialize _ _ _ _ _ _ _ _ _ _ _ x) as [x' r].
      unfold absr in Hs. cbn [fst snd] in Hs. injection Hs as Hx ->. exists x'. rewrite Hx. auto.
    Qed.
  End C11.

  (* ---------- C04: the fail-safe reader, both modes, over ARBITRARY inner bytes ---------- *)
  Section C04.
    Variable w : bytes.
    Variable R : st S -> N -> Prop.
    Hypothesis HS : Seekable S w R.
    Hypothesis Hbig : len w / (CHUNK + TAG) + 2 <= 2 ^ 32.

    Definition FsInvA_src (l : FSR) (q : N) : Prop :=
      Src3e.fs_mode S l = Src3e.OnlyAuthenticatedData /\ FsInvA CHUNK TAG ks tagc S w R (abs_fs l) q.
    Definition FsInvU_src (l : FSR) (q : N) : Prop :=
      Src3e.fs_mode S l = Src3e.DataEvenUnauthenticated /\ FsInvU CHUNK TAG ks S w R (abs_fs l) q.

    Lemma fs_read_refines_src (unauth : bool) b (I : estate S -> N -> Prop) fuel :
      RdRefines (fs_read CHUNK TAG ks tagc S unauth) b I ->
      RdRefines (g_fs_read (Datatypes.S (Datatypes.S fuel))) b
        (fun l q => unauth_of (Src3e.fs_mode S l) = unauth /\ I (abs_fs l) q).
    Proof.
      intros HM l q n [Hm HI].
      destruct (HM (abs_fs l) q n HI) as (s' & k & Hrd & H1 & H2 & H3 & H4).
      pose proof (enc_fs_read_sim S CHUNK TAG ks tagc site_index HCHUNK fuel l n) as Hs.
      rewrite Hm, Hrd in Hs. destruct (g_fs_read _ l n) as [l' r]. injection Hs as Hx Hmode ->.
      exists l', k. rewrite Hx, Hmode. split; [reflexivity|]. tauto.
    Qed.

    (* THEOREM B of C04 for the translated reader: in the authenticated mode any sequence of reads delivers
       consecutive bytes of auth_out w, then Ok(0) for ever: nothing decoded after a refused chunk is delivered *)
    Theorem fs_auth_refines_src fuel :
      RdRefines (g_fs_read (Datatypes.S (Datatypes.S fuel))) (auth_out CHUNK TAG ks tagc w)
        (fun l q => unauth_of (Src3e.fs_mode S l) = false /\ FsInvA CHUNK TAG ks tagc S w R (abs_fs l) q).
    Proof. apply fs_read_refines_src. exact (fs_auth_refines CHUNK TAG HCHUNK ks tagc S w R HS Hbig). Qed.
    Theorem fs_unauth_refines_src fuel :
      RdRefines (g_fs_read (Datatypes.S (Datatypes.S fuel))) (unauth_out CHUNK TAG ks w)
        (fun l q => unauth_of (Src3e.fs_mode S l) = true /\ FsInvU CHUNK TAG ks S w R (abs_fs l) q).
    Proof. apply fs_read_refines_src. exact (fs_unauth_refines CHUNK TAG HCHUNK ks tagc S w R HS Hbig). Qed.

    (* construction (chunk 0 unauthenticated in both modes: D2) never fails and starts at position 0 *)
    Theorem fs_open_auth_src i0 : R i0 0 ->
      exists l, g_fs_new i0 (Some tt) Src3e.OnlyAuthenticatedData = Ok l /\
                unauth_of (Src3e.fs_mode S l) = false /\ FsInvA CHUNK TAG ks tagc S w R (abs_fs l) 0.
    Proof.
      intros HR0. destruct (fs_open_auth CHUNK TAG HCHUNK ks tagc S w R HS Hbig i0 HR0) as (s & r & Ho & Hr & HI).
      pose proof (enc_fs_open_src S CHUNK TAG ks i0 Src3e.OnlyAuthenticatedData) as Hs.
      destruct (g_fs_new i0 (Some tt) Src3e.OnlyAuthenticatedData) as [l|e|c].
      - destruct Hs as (b & Hs & Hm). rewrite Ho in Hs. injection Hs as Hx _. exists l. rewrite <- Hx, Hm. auto.
      - destruct Hs as (s2 & Hs). rewrite Ho in Hs. injection Hs as _ ->. destruct Hr; discriminate.
      - destruct Hs as (s2 & Hs). rewrite Ho in Hs. injection Hs as _ ->. destruct Hr; discriminate.
    Qed.
  End C04.
End Carried.

(* ---------- non-vacuity: the translated functions run (toy cipher, CHUNK = 4, TAG = 2) ---------- *)
From MLA Require Import Inst.
Section Ex.
  Let CH := 4. Let TG := 2.
  Let plain : bytes := [1; 2; 3; 4; 5; 6; 7; 8; 9; 10].
  Let wire := enc_format CH toy_ks (toy_tag TG) plain.
  Let SC := Cursor wire.
  Let init (s : st SC) : st SC * res unit := (s, Ok tt).
  Let rdS := Src3e.elr_read SC CH TG toy_ks (toy_tag TG) (rd_fuel CH TG) 416 0 419 2%nat.
  Let skS := Src3e.elr_seek SC CH TG toy_ks (toy_tag TG) (rd_fuel CH TG) 416 0 524 2%nat.
  Let opened :=
    match Src3e.EncryptionLayerReader_new SC 0 (Some tt) with
    | Ok x => fst (Src3e.elr_initialize SC CH TG toy_ks (toy_tag TG) (rd_fuel CH TG) init 416 0 524 1%nat x)
    | _ => Src3e.mkELI SC 0 (Src3e.AesGcm256_new 0) [] 0 0
    end.
  (* read 3, seek to 2 before the end, read to the end, seek back by 5 from the current position, read across a chunk *)
  Example translated_enc_reader_runs :
    let '(x1, r1) := rdS opened 3 in
    let '(x2, r2) := skS x1 (FromEnd (-2)%Z) in
    let '(x3, r3) := rdS x2 5 in
    let '(x4, r4) := skS x3 (FromCur (-5)%Z) in
    let '(x5, r5) := rdS x4 3 in
    let '(x6, r6) := rdS x5 3 in
    (r1, r2, r3, r4, r5, r6) = (Ok [1; 2; 3], Ok 8, Ok [9; 10], Ok 5, Ok [6; 7; 8], Ok [9; 10]).
  Proof. vm_compute. reflexivity. Qed.
  (* the hypotheses of enc_reader_refines_src are met by this instance *)
  Example translated_enc_reader_hyps :
    (len plain / CH + 1) * (CH + TG) <= 2 ^ 64 - 1 /\ len plain < 2 ^ 63 /\ nfull CH (len plain) + 2 < 2 ^ 32.
  Proof. vm_compute. repeat split; discriminate. Qed.
  (* a flipped byte in chunk 1: the translated reader delivers chunk 0, then AuthenticatedDecryptionWrongTag,
     and stays there (sticky) *)
  Let bad := sliceN 0 7 wire ++ [N.lxor 1 (nth 7 wire 0)] ++ dropN 8 wire.
  Let SB := Cursor bad.
  Let rdB := Src3e.elr_read SB CH TG toy_ks (toy_tag TG) (rd_fuel CH TG) 416 0 419 2%nat.
  Example translated_enc_reader_detects :
    let x0 := fst (Src3e.elr_seek SB CH TG toy_ks (toy_tag TG) (rd_fuel CH TG) 416 0 524 2%nat
                     (Src3e.mkELI SB 0 (Src3e.AesGcm256_new 0) [] 0 0) (FromStart 0)) in
    let '(x1, r1) := rdB x0 10 in
    let '(x2, r2) := rdB x1 10 in
    let '(x3, r3) := rdB x2 10 in
    (r1, r2, r3) = (Ok [1; 2; 3; 4], Err EWrongTag, Ok []).
  Proof. vm_compute. reflexivity. Qed.
  (* the fail-safe reader on the wire cut inside chunk 1: authenticated mode stops after chunk 0, the other
     mode also delivers the cut chunk *)
  Let cut := takeN 9 wire.
  Let SF := Cursor cut.
  Let fsread := Src3e.fs_read SF CH TG toy_ks (toy_tag TG) (rd_fuel CH TG) 416 0 419 2%nat.
  Example translated_fs_reader_runs :
    match Src3e.EncryptionLayerFailSafeReader_new SF CH TG toy_ks (rd_fuel CH TG) 0 (Some tt) Src3e.OnlyAuthenticatedData,
          Src3e.EncryptionLayerFailSafeReader_new SF CH TG toy_ks (rd_fuel CH TG) 0 (Some tt) Src3e.DataEvenUnauthenticated with
    | Ok a, Ok u =>
      let '(a1, ra1) := fsread a 10 in let '(a2, ra2) := fsread a1 10 in let '(a3, ra3) := fsread a2 10 in
      let '(u1, ru1) := fsread u 10 in let '(u2, ru2) := fsread u1 10 in
      (ra1, ra2, ra3, ru1, ru2) = (Ok [1; 2; 3; 4], Ok [], Ok [], Ok [1; 2; 3; 4], Ok [5; 6; 7])
    | _, _ => False
    end.
  Proof. vm_compute. reflexivity. Qed.
  (* REGRESSION (was `seek_start_guard_model_differs` before work package fixenc, when EncLayer.eseek_start lacked the
     D20 guard): seek(Start(u64::MAX)) on an open reader.  Source and model: InvalidInput, nothing touched — the
     state after the error is the same, and the next reads go on (chunk 0, then chunk 1) in both. *)
  Let x0 := fst (skS (Src3e.mkELI SC 0 (Src3e.AesGcm256_new 0) [] 0 0) (FromStart 0)).
  Let big := 2 ^ 64 - 1.
  Example seek_start_guard_model_agrees :
    let '(x1, r1) := skS x0 (FromStart big) in
    let '(x2, r2) := rdS x1 4 in
    let '(x3, r3) := rdS x2 4 in
    let '(s1, m1) := eseek CH TG toy_ks (toy_tag TG) SC (SrcTie3Enc.abs SC x0) (FromStart big) in
    let '(s2, m2) := eread CH TG toy_ks (toy_tag TG) SC s1 4 in
    let '(s3, m3) := eread CH TG toy_ks (toy_tag TG) SC s2 4 in
    (x1 = x0 /\ (r1, r2, r3) = (Err EInval, Ok [1; 2; 3; 4], Ok [5; 6; 7; 8])) /\
    (s1 = SrcTie3Enc.abs SC x0 /\ (m1, m2, m3) = (r1, r2, r3)) /\
    (SrcTie3Enc.abs SC x1, SrcTie3Enc.abs SC x2, SrcTie3Enc.abs SC x3) = (s1, s2, s3).
  Proof. vm_compute. repeat split. Qed.
  (* out-of-range arguments of the other two arms, source = model, state after the error included:
     End(i64::MIN) -> InvalidInput (negative target) after the inner layer was asked for its end; End(1) -> EndOfStream,
     nothing touched; Current(i64::MAX) at position 0 -> InvalidInput ("chunk number out of range" of the Start arm it
     recurses into, after the inner layer was moved); the cached chunk 0 is still delivered by the next read *)
  Example seek_range_arms_model_agree :
    let go (w : whence) :=
      let '(x1, r1) := skS x0 w in let '(x2, r2) := rdS x1 4 in
      let '(s1, m1) := eseek CH TG toy_ks (toy_tag TG) SC (SrcTie3Enc.abs SC x0) w in
      let '(s2, m2) := eread CH TG toy_ks (toy_tag TG) SC s1 4 in
      ((SrcTie3Enc.abs SC x1, r1, SrcTie3Enc.abs SC x2, r2), (s1, m1, s2, m2), (m1, m2)) in
    let '(a1, b1, c1) := go (FromEnd (- 2 ^ 63)%Z) in
    let '(a2, b2, c2) := go (FromEnd 1%Z) in
    let '(a3, b3, c3) := go (FromCur (2 ^ 63 - 1)%Z) in
    (a1 = b1 /\ a2 = b2 /\ a3 = b3) /\
    (c1, c2, c3) = ((Err EInval, Ok [1; 2; 3; 4]), (Err EEos, Ok [1; 2; 3; 4]), (Err EInval, Ok [1; 2; 3; 4])).
  Proof. vm_compute. repeat split. Qed.
End Ex.
