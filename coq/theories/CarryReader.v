(* CarryReader.v — work package `carry`, part 2: the C01 round trip restated and proved about GENERATED
   code on BOTH sides.  The archive bytes are those the TRANSLATED writer produced (CarryWriter.src_wrun
   over gen/Src2.v); they are opened with the TRANSLATED ArchiveFooter::deserialize_from, listed with the
   TRANSLATED list_files, and read with the TRANSLATED get_file / get_hash / BlocksToFileReader::read
   (gen/Src3d.v), over ANY stream refining a cursor on those bytes, with any positive buffer sizes.
   Composition of src_wrun_sim (CarryWriter.v), the model round trip (RoundTrip.v) and the reader
   simulations (SrcTie3Reader.v, SrcTie3ReaderRT.v); nothing is reproved.
   Not generated: the rewind `src.rewind()` of from_config between footer and first use (written here as
   in Reader.ropen), bincode's byte layout of the footer (Blocks.parse_footer_map inside
   SrcTie3Reader.bincode_model).  ArchiveFileBlock::from is generated too since work package blockT
   (gen/Src3b.v, SrcTie3Block.block_from_src). *)
From MLA Require Import Limit.
From MLA Require Import Base Stream Blocks Writer Reader RoundTripBlocks RoundTripFooter
  RoundTripReader RoundTripWriter RoundTripRun RoundTripGlue RoundTrip SrcTie2 SrcTie3Reader SrcTie3ReaderRT CarryWriter.
From MLAGen Require Src2 Src3d.
From Coq Require Import ZifyBool ZifyNat ZifyN Permutation.
Open Scope N_scope.

Section Open.
  (* the translated reader has the constant of the source baked in: the carried theorems are stated at
     LIM = Src3d.BINCODE_MAX_DESERIALIZE (the writer side included: the same constant in lib.rs) *)
  Local Hint Extern 0 Limit => exact Src3d.BINCODE_MAX_DESERIALIZE : typeclass_instances.
  Variable S : Stream.
  (* the part of ArchiveReader::from_config above the layers: the TRANSLATED deserialize_from, then the rewind *)
  Definition src_open (s : st S) : res (Src3d.ArchiveReader S) :=
    match Src3d.footer_deserialize_from S (bincode_model S) s with
    | (s1, Ok m) =>
      match sk S s1 (FromStart 0) with
      | (s2, Ok _) => Ok (Src3d.mkAR S s2 (Some m))
      | (_, Err e) => Err e | (_, Crash c) => Crash c
      end
    | (_, Err e) => Err e | (_, Crash c) => Crash c
    end.
  Lemma src_open_ropen s :
    src_open s = match ropen S s with Ok r => Ok (rep_r S r) | Err e => Err e | Crash c => Crash c end.
  Proof.
    unfold src_open, ropen. rewrite footer_deserialize_order_src.
    destruct (read_footer S s) as [s1 [m|e|c]]; try reflexivity.
    destruct (sk S s1 (FromStart 0)) as [s2 [p|e|c]]; reflexivity.
  Qed.
End Open.

Section CarryReader.
  (* the translated reader has the constant of the source baked in: the carried theorems are stated at
     LIM = Src3d.BINCODE_MAX_DESERIALIZE (the writer side included: the same constant in lib.rs) *)
  Local Hint Extern 0 Limit => exact Src3d.BINCODE_MAX_DESERIALIZE : typeclass_instances.
  Variable FNMAX : N.
  Variables T_START T_CONTENT T_EOA T_EOF : N.
  Variable H : bytes -> bytes.
  Variable order : footer -> footer.
  Variable site_index : N.
  Hypothesis Htags : tags_distinct T_START T_CONTENT T_EOA T_EOF.
  Hypothesis HHlen : forall x, len (H x) = 32.
  Hypothesis Horder : forall f, Permutation (order f) f.

  Notation src_wrun := (src_wrun FNMAX T_START T_CONTENT T_EOA T_EOF H order).

  (* the calls of the TRANSLATED writer, all successful, then its finalize *)
  Variable ops : list wop.
  Variable sf : Src2.ArchiveWriter.
  Variable rs : list (res N).
  Hypothesis Hrun : src_wrun aw0 (ops ++ [OFinalize]) = (sf, rs).
  Hypothesis Hok : Forall (fun r => is_ok r = true) rs.
  Hypothesis Hutf : forallb op_utf8 ops = true.
  Hypothesis Hlen64 : len (Src2.dest sf) < 2 ^ 64.
  Hypothesis Hfoot32 : len (ser_footer_map (order (w_footer (absW sf)))) < 2 ^ 32.

  Variable S : Stream.
  Variable R : st S -> N -> Prop.
  Hypothesis HR : Refines S (Src2.dest sf) R.

  Notation g_get_file := (Src3d.get_file S FNMAX T_START T_CONTENT T_EOA T_EOF site_index).
  Notation g_get_hash := (Src3d.get_hash S FNMAX T_START T_CONTENT T_EOA T_EOF).
  Notation g_read_all := (g_read_all S FNMAX T_START T_CONTENT T_EOA T_EOF site_index).
  Notation RSm := (RS order (absW sf) S R).

  (* the written footer as the translated reader holds it; the source stands somewhere in the archive *)
  Definition SrcRS (ar : Src3d.ArchiveReader S) : Prop :=
    Src3d.ar_metadata S ar = Some (order (w_footer (absW sf))) /\ exists p, R (Src3d.ar_src S ar) p.

  Lemma SrcRS_rep ar : SrcRS ar -> exists r, ar = rep_r S r /\ RSm r.
  Proof.
    destruct ar as [s m]. unfold SrcRS. cbn [Src3d.ar_metadata Src3d.ar_src]. intros [-> Hp].
    exists (mkR s (order (w_footer (absW sf)))).  split; [reflexivity|]. split; [reflexivity | exact Hp].
  Qed.
  Lemma rep_SrcRS r : RSm r -> SrcRS (rep_r S r).
  Proof. intros [Hm Hp]. unfold SrcRS, rep_r. cbn [Src3d.ar_metadata Src3d.ar_src]. rewrite Hm. split; [reflexivity | exact Hp]. Qed.

  Lemma Hrun_model : wrun FNMAX T_START T_CONTENT T_EOA T_EOF H order w_init (ops ++ [OFinalize]) = (absW sf, rs).
  Proof. exact (proj1 (src_wrun_model _ _ _ _ _ _ _ _ _ _ Hrun)). Qed.

  (* 1. the archive written by the translated writer opens through the translated footer reader *)
  Theorem open_src s0 p0 : R s0 p0 -> exists ar, src_open S s0 = Ok ar /\ SrcRS ar.
  Proof.
    intros Hs0.
    destruct (rt_open FNMAX _ _ _ _ H order HHlen Horder ops _ _ Hrun_model Hok Hutf Hlen64 Hfoot32 S R HR s0 p0 Hs0)
      as (r & Ho & HRS).
    exists (rep_r S r). rewrite src_open_ropen, Ho. split; [reflexivity | exact (rep_SrcRS r HRS)].
  Qed.

  (* 2. exactly the started names, each once *)
  Theorem list_files_src ar : SrcRS ar ->
    exists names, Src3d.list_files S ar = (ar, Ok names) /\
      Permutation names (map fst (started 0 ops)) /\ NoDup names.
  Proof.
    intros Har. destruct (SrcRS_rep ar Har) as (r & -> & HRS).
    exists (list_files S r). split; [apply list_files_sim|].
    exact (rt_list FNMAX _ _ _ _ H order HHlen Horder ops _ _ Hrun_model Hok Hutf Hlen64 Hfoot32 S R r HRS).
  Qed.

  (* 3. the stored hash is H of the bytes given *)
  Theorem get_hash_src ar name id : SrcRS ar -> In (name, id) (started 0 ops) ->
    exists ar', g_get_hash ar name = (ar', Ok (Some (H (pieces 0 id ops)))) /\ SrcRS ar'.
  Proof.
    intros Har Hin. destruct (SrcRS_rep ar Har) as (r & -> & HRS).
    destruct (rt_get_hash FNMAX _ _ _ _ H order Htags HHlen Horder ops _ _ Hrun_model Hok Hutf Hlen64 Hfoot32 S R HR r name id HRS Hin)
      as (r' & Hg & HRS').
    exists (rep_r S r'). rewrite get_hash_sim, Hg. split; [reflexivity | exact (rep_SrcRS r' HRS')].
  Qed.

  (* 4. get_file reports the byte count; reading with any positive buffer sizes (over short reads of
     the stream) returns exactly the bytes given, in order, and ends in Finish.  F is the fuel of the
     translated `read` loop (the D14 loop over the offsets table): any F above (zf+1)(|offsets|+2) *)
  Theorem get_file_read_src ar name id : SrcRS ar -> In (name, id) (started 0 ops) ->
    exists fi, flookup (order (w_footer (absW sf))) name = Some fi /\ fi_size fi = len (pieces 0 id ops) /\
    forall sizes, (forall i, 0 < sizes i) ->
    forall zf fuel F, (length (pieces 0 id ops) < fuel)%nat ->
      (Datatypes.S zf * Datatypes.S (Datatypes.S (length (fi_offsets fi))) <= F)%nat ->
      exists ar' x x',
        g_get_file ar name = (ar', Ok (Some (name, x, len (pieces 0 id ops)))) /\ SrcRS ar' /\
        g_read_all F fuel x sizes 0%nat [] = (x', Ok (pieces 0 id ops)) /\
        Src3d.bfr_state S x' = Src3d.Finish.
  Proof.
    intros Har Hin. destruct (SrcRS_rep ar Har) as (r & -> & HRS).
    destruct (rt_setup FNMAX _ _ _ _ H order HHlen ops _ _ Hrun_model Hok Hutf Hlen64 Hfoot32)
      as (s & bl & HI & Ho & Hout & Hf & Hn & Hd & Hl).
    pose proof Hin as Hin0.
    rewrite <- (started_files FNMAX _ _ _ _ H ops s bl HI Hn) in Hin.
    destruct (rt_lookup FNMAX _ _ _ _ H order Horder (absW sf) s bl name id HI Ho Hf Hl Hin) as (fi & nm & Hlk & Hoff & Hsz & Hproj & _).
    destruct (blocks_wfb _ _ _ _ _ _ _ _ HI Hl) as [Hwf Hne].
    assert (HR' : Refines S (ser_blocks T_START T_CONTENT T_EOA T_EOF bl ++ [T_EOA] ++ ser_footer (order (w_footer (absW sf)))) R)
      by (rewrite <- Hout; exact HR).
    exists fi. split; [exact Hlk|]. split; [rewrite Hsz, Hd; reflexivity|].
    intros sizes Hsizes zf fuel F Hfuel HF.
    rewrite <- Hd in Hfuel.
    destruct (get_file_read_all_src S FNMAX _ _ _ _ site_index Htags bl _ R HR' Hwf Hne id _ r name fi nm _ _ HRS Hlk Hoff Hproj
                sizes Hsizes zf fuel F Hfuel HF) as (ar' & x & x' & Hg & Hra & Hfin).
    exists ar', x, x'. rewrite Hsz, Hd in Hg. rewrite Hd in Hra.
    split; [exact Hg|]. split; [|split; [exact Hra | exact Hfin]].
    (* the reader get_file leaves is the model's, which stays in the invariant *)
    destruct (rt_get_file FNMAX _ _ _ _ H order Htags HHlen Horder ops _ _ Hrun_model Hok Hutf Hlen64 Hfoot32 S R HR r name id HRS Hin0)
      as (r' & bs & Hgm & HRS' & _).
    rewrite get_file_sim, Hgm in Hg. injection Hg as <- _. exact (rep_SrcRS r' HRS').
  Qed.

  (* 5. names never started are absent, and the reader is left as it was *)
  Theorem absent_src ar name : SrcRS ar -> ~ In name (map fst (started 0 ops)) ->
    g_get_file ar name = (ar, Ok None) /\ g_get_hash ar name = (ar, Ok None).
  Proof.
    intros Har Hnin. destruct (SrcRS_rep ar Har) as (r & -> & HRS).
    destruct (rt_absent FNMAX _ _ _ _ H order HHlen Horder ops _ _ Hrun_model Hok Hutf Hlen64 Hfoot32 S R r name HRS Hnin) as [Hg Hh].
    rewrite get_file_sim, get_hash_sim, Hg, Hh. split; reflexivity.
  Qed.

  (* ---------- the whole path in one statement: write, open, list, hash, read ---------- *)
  Theorem roundtrip_src s0 p0 : R s0 p0 ->
    exists ar, src_open S s0 = Ok ar /\
      (exists names, Src3d.list_files S ar = (ar, Ok names) /\
         Permutation names (map fst (started 0 ops)) /\ NoDup names) /\
      (forall name, ~ In name (map fst (started 0 ops)) -> g_get_file ar name = (ar, Ok None)) /\
      forall name id, In (name, id) (started 0 ops) ->
        (exists ar', g_get_hash ar name = (ar', Ok (Some (H (pieces 0 id ops))))) /\
        exists fi, flookup (order (w_footer (absW sf))) name = Some fi /\
        forall sizes, (forall i, 0 < sizes i) ->
        forall zf fuel F, (length (pieces 0 id ops) < fuel)%nat ->
          (Datatypes.S zf * Datatypes.S (Datatypes.S (length (fi_offsets fi))) <= F)%nat ->
          exists ar' x x',
            g_get_file ar name = (ar', Ok (Some (name, x, len (pieces 0 id ops)))) /\
            g_read_all F fuel x sizes 0%nat [] = (x', Ok (pieces 0 id ops)) /\
            Src3d.bfr_state S x' = Src3d.Finish.
  Proof.
    intros Hs0. destruct (open_src s0 p0 Hs0) as (ar & Ho & Har).
    exists ar. split; [exact Ho|]. split; [exact (list_files_src ar Har)|].
    split; [intros name Hn; exact (proj1 (absent_src ar name Har Hn))|].
    intros name id Hin. split.
    - destruct (get_hash_src ar name id Har Hin) as (ar' & Hh & _). exists ar'. exact Hh.
    - destruct (get_file_read_src ar name id Har Hin) as (fi & Hlk & _ & Hrd).
      exists fi. split; [exact Hlk|]. intros sizes Hsz zf fuel F Hfuel HF.
      destruct (Hrd sizes Hsz zf fuel F Hfuel HF) as (ar' & x & x' & Hg & _ & Hra & Hfin).
      exists ar', x, x'. split; [exact Hg | split; [exact Hra | exact Hfin]].
  Qed.
End CarryReader.
