(* SrcTie3ReaderTotal.v — C08 carried over to the TRANSLATED reader (gen/Src3d.v): over any tame
   stream (hostile bytes, attacker-chosen footer), from ANY state of the Rust struct, the
   translated get_file / get_hash / read return a value or an error — never a panic site — and
   the loop of `read` ends within (M+2)·(|offsets|+2) turns. *)
From MLA Require Import Limit.
From MLA Require Import Base Stream Blocks Reader Total TotalReader SrcTie3Reader.
From MLAGen Require Src3d.
From Coq Require Import ZifyBool ZifyNat ZifyN.
Open Scope N_scope.

Section TotalSrc.
  Context {LIM : Limit}.
  Variable S : Stream.
  Variables FNMAX T_START T_CONTENT T_EOA T_EOF : N.
  Variable site_index : N.
  Variable I : st S -> Prop.
  Variable pos : st S -> N.
  Variable M : N.
  Hypothesis HT : Tame S I pos M.

  Notation BFR := (Src3d.BlocksToFileReader S).
  Notation g_read := (Src3d.bfr_read S FNMAX T_START T_CONTENT T_EOA T_EOF site_index 1123).
  Notation g_get_file := (Src3d.get_file S FNMAX T_START T_CONTENT T_EOA T_EOF site_index).
  Notation g_get_hash := (Src3d.get_hash S FNMAX T_START T_CONTENT T_EOA T_EOF).

  Theorem bfr_read_total_src (x : BFR) n F :
    I (Src3d.bfr_src S x) -> Src3d.bfr_offsets S x <> [] ->
    (Datatypes.S (Datatypes.S (N.to_nat M)) * Datatypes.S (Datatypes.S (length (Src3d.bfr_offsets S x))) <= F)%nat ->
    let '(x', r) := g_read F x n in
    I (Src3d.bfr_src S x') /\ total r /\ (forall d, r = Ok d -> len d <= n).
  Proof.
    intros Hi Hne HF. rewrite <- (rep_abs S x) in *.
    set (b := abs S x) in *.
    assert (Hb : I (b_src b)) by exact Hi.
    assert (Ho : b_offs b <> []) by exact Hne.
    pose proof (bread_tame FNMAX T_START T_CONTENT T_EOA T_EOF S I pos M HT (Datatypes.S (N.to_nat M)) b n Hb Ho ltac:(lia)) as Hp.
    assert (HF' : (Datatypes.S (Datatypes.S (N.to_nat M)) * Datatypes.S (Datatypes.S (length (b_offs b))) <= F)%nat) by exact HF.
    pose proof (bfr_read_sim S FNMAX T_START T_CONTENT T_EOA T_EOF site_index (Datatypes.S (N.to_nat M)) F b n HF') as Hs.
    unfold bread_post in Hp.
    destruct (bread FNMAX T_START T_CONTENT T_EOA T_EOF S (Datatypes.S (N.to_nat M)) b n) as [b' r] eqn:Eb.
    destruct Hp as (Hi' & _ & _ & Ht & Hl).
    assert (Hnf : snd (b', r) <> Err EFuel) by (cbn [snd]; intros ->; exact Ht).
    destruct (Hs Hnf) as (H1 & H2 & _). cbn [fst snd] in *.
    destruct (g_read F (SrcTie3Reader.rep S b) n) as [x' r']. cbn [fst snd] in *. subst r'.
    rewrite H2. auto.
  Qed.

  Theorem get_file_total_src (r : rstate S) name : I (r_src r) ->
    let '(ar', x) := g_get_file (rep_r S r) name in total x.
  Proof.
    intros Hi. rewrite get_file_sim.
    pose proof (get_file_tame FNMAX T_START T_CONTENT T_EOA T_EOF S I pos M HT r name Hi) as Hp.
    destruct (get_file FNMAX T_START T_CONTENT T_EOA T_EOF S r name) as [r' x].
    destruct Hp as (_ & _ & Ht & _). destruct x as [[[b sz]|]|e|c]; exact Ht.
  Qed.

  Theorem get_hash_total_src (r : rstate S) name : I (r_src r) ->
    let '(ar', x) := g_get_hash (rep_r S r) name in total x.
  Proof.
    intros Hi. rewrite get_hash_sim.
    pose proof (get_hash_tame FNMAX T_START T_CONTENT T_EOA T_EOF S I pos M HT r name Hi) as Hp.
    destruct (get_hash FNMAX T_START T_CONTENT T_EOA T_EOF S r name) as [r' x].
    destruct Hp as (_ & _ & Ht). exact Ht.
  Qed.
End TotalSrc.
