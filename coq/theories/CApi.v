(* CApi.v — model of the C interface, bindings/C/src/lib.rs (definitions only).

   PART A: the callback-backed Write adapter (lib.rs:191-213) under std's `write_all`.
   PART B: the handle state machine of every entry point (lib.rs:217-713): handles are
   `option` slots, every null check is modelled AS WRITTEN, a dereference of a null /
   cleared handle that the code does not check would be `CCrash NullDeref`.

   What is NOT modelled (runtime part of C20, covered by the harness only): validity of
   non-null raw pointers, Box::from_raw/leak aliasing, type confusion between handle kinds,
   the bytes produced by the compression and encryption layers between the ArchiveWriter and
   the callback (the C API can only create COMPRESS|ENCRYPT archives: Layers::DEFAULT).  The
   layer stack enters PART B through the per-call environment input `ioev`: what the
   callbacks reported while the call ran and, when they failed, in which phase. *)
From MLA Require Import Limit.
From MLA Require Import Base Stream Blocks Writer.
Open Scope N_scope.

(* ------------------------------------------------------------------ MLAStatus *)
Inductive status :=
| Success | IOError | WrongMagic | UnsupportedVersion | InvalidECCKeyFormat
| WrongBlockSubFileType | UTF8ConversionError | FilenameTooLong | WrongArchiveWriterState
| AssertionError | WrongReaderState | WrongWriterState | PrivateKeyNeeded
| DeserializationError | SerializationError | MissingMetadata | BadAPIArgument | EndOfStream
| CfgIncoherentPersistentConfig | CfgCompressionLevelOutOfRange | CfgEncryptionKeyIsMissing
| CfgPrivateKeyNotSet | CfgPrivateKeyNotFound | CfgECIESComputationError
| DuplicateFilename | AuthenticatedDecryptionWrongTag | HKDFInvalidKeyLength
| Curve25519ParserError.

Definition status_code (s : status) : N :=
  match s with
  | Success => 0 | IOError => 65536 | WrongMagic => 131072 | UnsupportedVersion => 196608
  | InvalidECCKeyFormat => 262144 | WrongBlockSubFileType => 327680
  | UTF8ConversionError => 393216 | FilenameTooLong => 458752
  | WrongArchiveWriterState => 524288 | AssertionError => 589824 | WrongReaderState => 655360
  | WrongWriterState => 720896 | PrivateKeyNeeded => 917504 | DeserializationError => 983040
  | SerializationError => 1048576 | MissingMetadata => 1114112 | BadAPIArgument => 1179648
  | EndOfStream => 1245184 | CfgIncoherentPersistentConfig => 1310721
  | CfgCompressionLevelOutOfRange => 1310722 | CfgEncryptionKeyIsMissing => 1310723
  | CfgPrivateKeyNotSet => 1310724 | CfgPrivateKeyNotFound => 1310725
  | CfgECIESComputationError => 1310726 | DuplicateFilename => 1376256
  | AuthenticatedDecryptionWrongTag => 1441792 | HKDFInvalidKeyLength => 1507328
  | Curve25519ParserError => 15794176
  end.

Definition all_status : list status :=
  [Success; IOError; WrongMagic; UnsupportedVersion; InvalidECCKeyFormat; WrongBlockSubFileType;
   UTF8ConversionError; FilenameTooLong; WrongArchiveWriterState; AssertionError; WrongReaderState;
   WrongWriterState; PrivateKeyNeeded; DeserializationError; SerializationError; MissingMetadata;
   BadAPIArgument; EndOfStream; CfgIncoherentPersistentConfig; CfgCompressionLevelOutOfRange;
   CfgEncryptionKeyIsMissing; CfgPrivateKeyNotSet; CfgPrivateKeyNotFound; CfgECIESComputationError;
   DuplicateFilename; AuthenticatedDecryptionWrongTag; HKDFInvalidKeyLength; Curve25519ParserError].

(* ================================================================== PART A: adapter *)

(* What one invocation of the C write callback does: return 0 after accepting (at most) k
   bytes of the buffer it is shown, or return a non-zero code.  `FailCb 0` is a callback
   returning 0 without touching `bytes_written` (initialised to 0 by the adapter). *)
Inductive cbev := Accept (k : N) | FailCb (code : N).
Definition EINTR : N := 4.        (* io::Error::from_raw_os_error(4).kind() == Interrupted *)

(* CallbackOutput::write: only the first 4 GiB of the buffer are shown to the callback *)
Definition clamp_u32 (n : N) : N := if n <? 4294967296 then n else 4294967294.

Inductive wres := WOk (n : N) | WInterrupted | WErr.
Definition cb_write (ev : cbev) (buf : bytes) : wres * bytes :=
  match ev with
  | Accept k => let n := N.min k (clamp_u32 (len buf)) in (WOk n, takeN n buf)
  | FailCb c => if c =? 0 then (WOk 0, []) else if c =? EINTR then (WInterrupted, []) else (WErr, [])
  end.

(* std::io::Write::write_all over the adapter.  `sched`: the behaviour of the successive
   callback invocations (when exhausted the callback accepts everything); `got`: the bytes
   the callback has accepted so far.  Fuel: one unit per invocation. *)
Fixpoint write_all (fuel : nat) (sched : list cbev) (buf got : bytes) : list cbev * bytes * res unit :=
  match buf with
  | [] => (sched, got, Ok tt)
  | _ :: _ =>
    match fuel with
    | O => (sched, got, Err EFuel)
    | S f =>
      let '(ev, rest) := match sched with [] => (Accept (len buf), []) | e :: r => (e, r) end in
      match cb_write ev buf with
      | (WOk 0, _) => (rest, got, Err EIo)                           (* ErrorKind::WriteZero *)
      | (WOk n, acc) => write_all f rest (dropN n buf) (got ++ acc)
      | (WInterrupted, _) => write_all f rest buf got                  (* retried *)
      | (WErr, _) => (rest, got, Err EIo)
      end
    end
  end.
Definition write_all_fuel (sched : list cbev) (buf : bytes) : nat := (length sched + length buf + 1)%nat.

(* an invocation that lets write_all continue: accepts at least one byte, or EINTR *)
Definition benign (e : cbev) : bool :=
  match e with Accept k => 0 <? k | FailCb c => c =? EINTR end.
(* a failure report in the sense of mla.h ("returns an error code on failure") *)
Definition reports_failure (e : cbev) : bool :=
  match e with Accept _ => false | FailCb c => negb (c =? 0) end.

(* ================================================================== PART B: handles *)

Definition NullDeref : N := 2001.
Inductive cres := Ret (st : status) | CCrash (site : N).

(* a reference to a handle variable of the caller: NULL, or the variable in slot i.  For
   by-value handle parameters `RSlot i` means "the value currently stored in variable i". *)
Inductive href := RNull | RSlot (i : N).

(* what the parser made of a key text argument *)
Inductive keyarg := KNull | KValid (n : N) | KInvalid.

(* Where a callback failure surfaced inside the call (environment input):
   PhRaw: plain write_all / io::copy path -> Error::IOError;
   PhSer: inside a bincode serialize_into (header config, archive footer, SizesInfo) whose
          error is replaced by Error::SerializationError;
   PhFinish: while brotli's CompressorWriter::into_inner() finishes the stream in
          CompressionLayerWriter::finalize — brotli drops the error, the layer checks its
          counting writer afterwards and reports it (repair K20-FINISH) -> Error::IOError;
   PhFlushCb: the flush callback itself. *)
Inductive phase := PhRaw | PhSer | PhFinish | PhFlushCb.
Inductive ioev := IoOk | IoFail (ph : phase).

Inductive ccall :=
| CConfigNew (out : href)
| CAddPub (c : href) (k : keyarg)
| CSetLevel (c : href) (level : N)
| CRConfigNew (out : href)
| CAddPriv (c : href) (k : keyarg)
| CArchiveNew (cfg : href) (wcb fcb : bool) (out : href) (io : ioev)   (* wcb/fcb: callback non-NULL *)
| CFileNew (a : href) (name : option bytes) (out : href) (io : ioev)
| CAppend (a f : href) (buf : option bytes) (length : N) (io : ioev)    (* buf = None: NULL buffer *)
| CFlush (a : href) (io : ioev)
| CFileClose (a : href) (f : href) (io : ioev)
| CArchiveClose (a : href) (io : ioev)
| CExtract (cfg : href) (rcb scb fcb : bool) (outcome : status)
| CInfo (rcb : bool) (info_out : bool) (outcome : status).

(* the caller's handle variables: total maps from variable index to handle (None = NULL) *)
Definition slots (A : Type) := N -> option A.
Definition sempty {A} : slots A := fun _ => None.
Definition sget {A} (l : slots A) (r : href) : option A :=
  match r with RNull => None | RSlot i => l i end.
Definition sset {A} (l : slots A) (i : N) (v : option A) : slots A :=
  fun j => if j =? i then v else l j.

Section CApi.
  Context {LIM : Limit}.
  Variable FNMAX : N.
  Variables T_START T_CONTENT T_EOA T_EOF : N.
  Variable H : bytes -> bytes.
  Variable order : footer -> footer.
  (* `fix16`: the check added by /repo commit "fix: C API refuses a configuration handle it has
     already consumed" (D16) is present.  `capi_step` is the current code (true). *)
  Variable fix16 : bool.

  Notation wstate := Writer.wstate.
  Notation wstep := (Writer.wstep FNMAX T_START T_CONTENT T_EOA T_EOF H order).

  Record wcfg := mkWC { wc_keys : N; wc_level : N }.
  Record rcfg := mkRC { rc_keys : N }.
  (* a_ops: ghost history of the writer operations that succeeded on this archive *)
  Record carch := mkA { a_w : wstate; a_poison : bool; a_ops : list wop }.

  Record cstate := mkC {
    c_cfg : slots wcfg;
    c_rcfg : slots rcfg;
    c_ar : slots carch;
    c_fh : slots N;
    c_done : list (list wop);      (* ghost: op histories of the archives closed with Success *)
  }.
  Definition c_init : cstate := mkC sempty sempty sempty sempty [].

  Definition set_cfg s i v := mkC (sset (c_cfg s) i v) (c_rcfg s) (c_ar s) (c_fh s) (c_done s).
  Definition set_rcfg s i v := mkC (c_cfg s) (sset (c_rcfg s) i v) (c_ar s) (c_fh s) (c_done s).
  Definition set_ar s i v := mkC (c_cfg s) (c_rcfg s) (sset (c_ar s) i v) (c_fh s) (c_done s).
  Definition set_fh s i v := mkC (c_cfg s) (c_rcfg s) (c_ar s) (sset (c_fh s) i v) (c_done s).
  Definition push_done s ops := mkC (c_cfg s) (c_rcfg s) (c_ar s) (c_fh s) (c_done s ++ [ops]).

  (* MLAStatus::from(e) for the errors the writer model produces; EState is
     WrongArchiveWriterState for the check_state! macros, WrongWriterState in finalize *)
  Definition st_of_err (fin : bool) (e : err) : status :=
    match e with
    | EState => if fin then WrongWriterState else WrongArchiveWriterState
    | ENameTooLong => FilenameTooLong
    | EDup => DuplicateFilename
    | _ => IOError
    end.

  (* status of a failed write path, by phase *)
  Definition st_of_phase (ph : phase) : status :=
    match ph with PhSer => SerializationError | _ => IOError end.

  (* start_file registers the file (files_info, ids_info, next_id) BEFORE dumping the block
     and adds it to OpenedFiles only AFTER: when the dump fails the id is known, not open *)
  Definition unopen (w : wstate) (id : N) : wstate :=
    mkW (w_out w) (w_final w) (aremove (w_open w) id) (w_files w) (w_ids w) (w_next w) (w_cur w).

  (* a writer operation (start / append / end) on the archive in slot i: the writer's own
     refusals come first (state unchanged), then the dump, which fails when the compression
     layer is already poisoned (state Empty) or a callback fails now *)
  Definition wcall (s : cstate) (i : N) (ar : carch) (op : wop) (io : ioev)
                   (on_ok : cstate -> N -> cstate) (on_fail : wstate -> N -> wstate) : cstate * cres :=
    match wstep (a_w ar) op with
    | (w', Ok v) =>
      let silent := match op with OAppend _ size _ => size =? 0 | _ => false end in
      if silent then (s, Ret Success)                               (* returns before any I/O *)
      else if a_poison ar || match io with IoOk => false | IoFail _ => true end then
        (set_ar s i (Some (mkA (on_fail w' v) true (a_ops ar))), Ret IOError)
      else (on_ok (set_ar s i (Some (mkA w' false (a_ops ar ++ [op])))) v, Ret Success)
    | (_, Err e) => (s, Ret (st_of_err false e))
    | (_, Crash c) => (s, CCrash c)
    end.

  Definition capi_step (s : cstate) (c : ccall) : cstate * cres :=
    match c with
    | CConfigNew out =>
      match out with
      | RNull => (s, Ret BadAPIArgument)
      | RSlot i => (set_cfg s i (Some (mkWC 0 5)), Ret Success)
      end
    | CAddPub c k =>
      match sget (c_cfg s) c, c, k with
      | None, _, _ | _, RNull, _ | _, _, KNull => (s, Ret BadAPIArgument)
      | Some cf, RSlot i, KValid n =>
        if n =? 0 then (s, Ret Curve25519ParserError)
        else (set_cfg s i (Some (mkWC (wc_keys cf + n) (wc_level cf))), Ret Success)
      | Some _, RSlot _, KInvalid => (s, Ret Curve25519ParserError)
      end
    | CSetLevel c level =>
      match sget (c_cfg s) c, c with
      | None, _ | _, RNull => (s, Ret BadAPIArgument)
      | Some cf, RSlot i =>
        if 11 <? level then (s, Ret CfgCompressionLevelOutOfRange)
        else (set_cfg s i (Some (mkWC (wc_keys cf) level)), Ret Success)
      end
    | CRConfigNew out =>
      match out with
      | RNull => (s, Ret BadAPIArgument)
      | RSlot i => (set_rcfg s i (Some (mkRC 0)), Ret Success)
      end
    | CAddPriv c k =>
      match sget (c_rcfg s) c, c, k with
      | None, _, _ | _, RNull, _ | _, _, KNull => (s, Ret BadAPIArgument)
      | Some cf, RSlot i, KValid _ => (set_rcfg s i (Some (mkRC (rc_keys cf + 1))), Ret Success)
      | Some _, RSlot _, KInvalid => (s, Ret Curve25519ParserError)
      end
    | CArchiveNew cfg wcb fcb out io =>
      match cfg, out with
      | RNull, _ | _, RNull => (s, Ret BadAPIArgument)
      | RSlot ci, RSlot oi =>
        if negb wcb || negb fcb then (s, Ret BadAPIArgument) else
        match sget (c_cfg s) cfg with
        | None => if fix16 then (s, Ret BadAPIArgument) else (s, CCrash NullDeref)
        | Some cf =>
          let s1 := set_cfg s ci None in                 (* handle cleared, configuration freed *)
          if wc_keys cf =? 0 then (s1, Ret CfgEncryptionKeyIsMissing)       (* config.check() *)
          else match io with
               | IoFail ph => (s1, Ret (st_of_phase ph))                   (* header dump *)
               | IoOk => (set_ar s1 oi (Some (mkA w_init false [])), Ret Success)
               end
        end
      end
    | CFileNew a name out io =>
      match sget (c_ar s) a, a, name, out with
      | None, _, _, _ | _, RNull, _, _ | _, _, None, _ | _, _, _, RNull => (s, Ret BadAPIArgument)
      | Some ar, RSlot i, Some nm, RSlot oi =>
        wcall s i ar (OStart nm) io (fun s' id => set_fh s' oi (Some id)) unopen
      end
    | CAppend a f buf length io =>
      match sget (c_ar s) a, a, sget (c_fh s) f, buf with
      | None, _, _, _ | _, RNull, _, _ | _, _, None, _ | _, _, _, None => (s, Ret BadAPIArgument)
      | Some ar, RSlot i, Some id, Some data =>
        wcall s i ar (OAppend id length (takeN length data ++ repeat 0 (N.to_nat (length - len data)))) io
              (fun s' _ => s') (fun w _ => w)
      end
    | CFlush a io =>
      match sget (c_ar s) a, a with
      | None, _ | _, RNull => (s, Ret BadAPIArgument)
      | Some ar, RSlot _ =>
        if a_poison ar then (s, Ret IOError)
        else match io with IoFail _ => (s, Ret IOError) | IoOk => (s, Ret Success) end
      end
    | CFileClose a f io =>
      match sget (c_ar s) a, a, f with
      | None, _, _ | _, RNull, _ | _, _, RNull => (s, Ret BadAPIArgument)
      | Some ar, RSlot i, RSlot fi =>
        match sget (c_fh s) f with
        | None => (s, Ret BadAPIArgument)
        | Some id =>
          let s1 := set_fh s fi None in                  (* handle cleared, id box freed *)
          wcall s1 i ar (OEnd id) io (fun s' _ => s') (fun w _ => w)
        end
      end
    | CArchiveClose a io =>
      match a with
      | RNull => (s, Ret BadAPIArgument)
      | RSlot i =>
        match sget (c_ar s) a with
        | None => (s, Ret BadAPIArgument)
        | Some ar =>
          let s1 := set_ar s i None in                   (* handle cleared, archive dropped *)
          match wstep (a_w ar) OFinalize with
          | (_, Err e) => (s1, Ret (st_of_err true e))
          | (_, Crash c) => (s1, CCrash c)
          | (_, Ok _) =>
            if a_poison ar then (s1, Ret IOError) else
            match io with
            | IoFail ph => (s1, Ret (st_of_phase ph))
            | IoOk => (push_done s1 (a_ops ar ++ [OFinalize]), Ret Success)
            end
          end
        end
      end
    | CExtract cfg rcb scb fcb outcome =>
      match cfg with
      | RNull => (s, Ret BadAPIArgument)
      | RSlot ci =>
        if negb rcb || negb scb || negb fcb then (s, Ret BadAPIArgument) else
        match sget (c_rcfg s) cfg with
        | None => if fix16 then (s, Ret BadAPIArgument) else (s, CCrash NullDeref)
        | Some _ => (set_rcfg s ci None, Ret outcome)    (* reader: see Reader.v / C12 *)
        end
      end
    | CInfo rcb info_out outcome =>
      if negb info_out then (s, Ret BadAPIArgument)
      else if negb rcb then (s, Ret BadAPIArgument)
      else (s, Ret outcome)
    end.

  Fixpoint capi_run (s : cstate) (cs : list ccall) : cstate * list cres :=
    match cs with
    | [] => (s, [])
    | c :: r => let '(s1, x) := capi_step s c in let '(s2, xs) := capi_run s1 r in (s2, x :: xs)
    end.

  (* ---- vocabulary of the theorems ---- *)

  (* the call names a NULL pointer / NULL handle / a handle variable that holds no live
     handle (never assigned, or cleared by the interface) in one of its handle positions *)
  Definition dead {A} (l : slots A) (r : href) : bool :=
    match sget l r with None => true | Some _ => false end.
  Definition isnull (r : href) : bool := match r with RNull => true | _ => false end.
  Definition null_call (s : cstate) (c : ccall) : bool :=
    match c with
    | CConfigNew out | CRConfigNew out => isnull out
    | CAddPub c k => dead (c_cfg s) c || match k with KNull => true | _ => false end
    | CSetLevel c _ => dead (c_cfg s) c
    | CAddPriv c k => dead (c_rcfg s) c || match k with KNull => true | _ => false end
    | CArchiveNew cfg wcb fcb out _ => dead (c_cfg s) cfg || isnull out || negb wcb || negb fcb
    | CFileNew a name out _ => dead (c_ar s) a || isnull out || match name with None => true | _ => false end
    | CAppend a f buf _ _ => dead (c_ar s) a || dead (c_fh s) f || match buf with None => true | _ => false end
    | CFlush a _ => dead (c_ar s) a
    | CFileClose a f _ => dead (c_ar s) a || dead (c_fh s) f
    | CArchiveClose a _ => dead (c_ar s) a
    | CExtract cfg rcb scb fcb _ => dead (c_rcfg s) cfg || negb rcb || negb scb || negb fcb
    | CInfo rcb io _ => negb rcb || negb io
    end.

  Definition io_of (c : ccall) : ioev :=
    match c with
    | CArchiveNew _ _ _ _ io | CFileNew _ _ _ io | CAppend _ _ _ _ io | CFlush _ io
    | CFileClose _ _ io | CArchiveClose _ io => io
    | _ => IoOk
    end.
  (* calls that return before reaching any write: configuration calls, zero-length append *)
  Definition no_io_call (c : ccall) : bool :=
    match c with
    | CAppend _ _ _ length _ => length =? 0
    | CArchiveNew _ _ _ _ _ | CFileNew _ _ _ _ | CFlush _ _ | CFileClose _ _ _ | CArchiveClose _ _ => false
    | _ => true
    end.

  Definition all_ok (rs : list (res N)) : bool := forallb is_ok rs.
End CApi.

(* the number of null / None / cleared-handle tests each entry point performs (lib.rs),
   compared with the count src2v.py extracts from the source (SrcTie-style lemma in
   CApiProofs.v): removing a check from the source breaks that lemma *)
Definition model_nullchecks : list N :=
  (* config_default_new, config_add_public_keys, config_set_compression_level,
     reader_config_new, reader_config_add_private_key, archive_new, archive_file_new,
     archive_file_append, archive_flush, archive_file_close, archive_close,
     roarchive_extract, roarchive_extract_internal, roarchive_info, roarchive_info_internal *)
  [1; 2; 1; 1; 2; 5; 3; 3; 1; 3; 2; 4; 3; 2; 0].
