(* SrcTie3Cmds2Open.v — Tie A level 1 for the key handling of the mlar commands (work package cmdsT2):
   open_ecc_private_keys, readerconfig_from_matches, open_mla_file and open_failsafe_mla_file of mlar/src/main.rs, as translated
   by tools/src2v3_cmds.py (gen/Src3m.v), with the library calls instantiated by the model's functions (Archive.read_header,
   Archive.archive_open, Archive.load_config), ARE Cli.cli_open and CliRepair.repair_open behind the loading of the key files.

   What is fixed by the instantiation (and nothing else):
     the -i file exists and holds the bytes a (File = (content, position); rewind = position 0; ArchiveHeader::from reads at the
     position; ArchiveReader::from_config / ArchiveFailSafeReader::from_config rewind themselves, read the header again and take
     the candidate keys of the configuration, NOT its layers_enabled: load_persistent replaces them, config.rs);
   everything about the -k files is left free: any paths, any file system function, any parser.

   DOMAIN: clap's `-k` takes at least one value, so `Some []` does not occur; for that value the source sets the expectation
   ENCRYPT with no key while Cli.key_given [] = false, hence the premise  arg <> Some []  of the lemmas. *)
From MLA Require Import Limit.
From MLA Require Import Base Stream Blocks Writer Reader Format Ecies Archive Cli CliProofs CliRepair Keys.
From MLAGen Require Src3m.
From Coq Require Import Lia ZifyBool ZifyNat ZifyN.
Open Scope N_scope.

(* ---------- the -k files: any paths, any file system, any parser ---------- *)
Section KeyFiles.
  Variable KPath : Type.
  Variable fs_open_key : KPath -> Src3m.World -> res bytes.
  Variable parse_privkey : bytes -> res bytes.
  Variable site : N -> N.

  (* what open_ecc_private_keys computes: File::open `?`, read_to_end, the parser (its error becomes InvalidECCKeyFormat) *)
  Fixpoint load_keys (w : Src3m.World) (l : list KPath) : res (list bytes) :=
    match l with
    | [] => Ok []
    | kp :: rest =>
      match fs_open_key kp w with
      | Ok c => match parse_privkey c with
                | Ok k => match load_keys w rest with Ok ks => Ok (k :: ks) | Err e => Err e | Crash x => Crash x end
                | Err _ => Err EInval
                | Crash x => Crash x
                end
      | Err e => Err e
      | Crash x => Crash x
      end
    end.

  Lemma keys_loop_src l : forall acc w,
    Src3m.open_ecc_private_keys_for1 KPath fs_open_key parse_privkey acc w l =
    match load_keys w l with
    | Ok ks => ((w, acc ++ ks), Ok tt)
    | Err e => (fst (Src3m.open_ecc_private_keys_for1 KPath fs_open_key parse_privkey acc w l), Err e)
    | Crash x => (fst (Src3m.open_ecc_private_keys_for1 KPath fs_open_key parse_privkey acc w l), Crash x)
    end.
  Proof.
    induction l as [|kp l IH]; intros acc w; cbn [Src3m.open_ecc_private_keys_for1 load_keys Src3m.read_to_end app].
    - rewrite app_nil_r. reflexivity.
    - destruct (fs_open_key kp w) as [c|e|x]; [|reflexivity|reflexivity].
      destruct (parse_privkey c) as [k|e|x]; [|reflexivity|reflexivity].
      rewrite IH. destruct (load_keys w l) as [ks|e|x]; [|reflexivity|reflexivity].
      rewrite <- app_assoc. reflexivity.
  Qed.

  (* the world is only read *)
  Lemma keys_loop_world l : forall acc w,
    fst (fst (Src3m.open_ecc_private_keys_for1 KPath fs_open_key parse_privkey acc w l)) = w.
  Proof.
    induction l as [|kp l IH]; intros acc w; cbn [Src3m.open_ecc_private_keys_for1 Src3m.read_to_end app]; [reflexivity|].
    destruct (fs_open_key kp w) as [c|e|x]; [|reflexivity|reflexivity].
    destruct (parse_privkey c) as [k|e|x]; [|reflexivity|reflexivity]. apply IH.
  Qed.

  (* the configuration readerconfig_from_matches makes of the loaded keys: the candidate keys, and the expectation ENCRYPT *)
  Definition rc_of (privs : list bytes) : Src3m.ReaderConfig := Src3m.mkRC [Src3m.ENCRYPT] privs false.

  (* the candidate keys of the command line: None = no -k option.  A key file that cannot be opened / read / parsed is a PANIC
     (exit 101) in readerconfig_from_matches, before the archive is looked at *)
  Definition cli_keys (arg : option (list KPath)) (w : Src3m.World) : res (list bytes) :=
    match arg with
    | None => Ok []
    | Some l => match load_keys w l with Ok ks => Ok ks | Err _ => Crash (site 1) | Crash x => Crash x end
    end.

  (* with at least one -k value, at least one candidate key *)
  Lemma cli_keys_given arg w ks : arg <> Some [] -> cli_keys arg w = Ok ks -> key_given ks = Src3m.is_some arg.
  Proof.
    destruct arg as [[|kp l]|]; [congruence| |intros _ [= <-]; reflexivity]. intros _. unfold cli_keys. cbn [load_keys Src3m.is_some].
    destruct (fs_open_key kp w) as [c|e|x]; [|discriminate|discriminate].
    destruct (parse_privkey c) as [k|e|x]; [|discriminate|discriminate].
    destruct (load_keys w l) as [ks'|e|x]; [|discriminate|discriminate]. intros [= <-]. reflexivity.
  Qed.

  Theorem readerconfig_from_matches_src arg w :
    Src3m.readerconfig_from_matches KPath arg fs_open_key parse_privkey site w =
    (w, match arg with
        | None => Ok Src3m.rc_new
        | Some _ => match cli_keys arg w with Ok ks => Ok (rc_of ks) | Err e => Err e | Crash x => Crash x end
        end).
  Proof.
    destruct arg as [l|]; [|reflexivity].
    unfold Src3m.readerconfig_from_matches, Src3m.open_ecc_private_keys, cli_keys. cbn [Src3m.is_some].
    pose proof (keys_loop_world l [] w) as Hw. rewrite keys_loop_src in *.
    destruct (load_keys w l) as [ks|e|x]; cbn [fst] in *.
    - reflexivity.
    - destruct (Src3m.open_ecc_private_keys_for1 KPath fs_open_key parse_privkey [] w l) as [[w' a'] r']. cbn [fst] in Hw. subst w'. reflexivity.
    - destruct (Src3m.open_ecc_private_keys_for1 KPath fs_open_key parse_privkey [] w l) as [[w' a'] r']. cbn [fst] in Hw. subst w'. reflexivity.
  Qed.

  (* the expectation ENCRYPT is set exactly when the -k option is there *)
  Corollary readerconfig_expects_encrypt arg w c :
    snd (Src3m.readerconfig_from_matches KPath arg fs_open_key parse_privkey site w) = Ok c ->
    Src3m.rc_contains c Src3m.ENCRYPT = Src3m.is_some arg.
  Proof.
    rewrite readerconfig_from_matches_src. cbn [snd]. destruct arg as [l|]; cbn [Src3m.is_some].
    - destruct (cli_keys (Some l) w) as [ks|e|x]; [|discriminate|discriminate]. intros [= <-]. reflexivity.
    - intros [= <-]. reflexivity.
  Qed.
End KeyFiles.

(* ---------- open_mla_file / open_failsafe_mla_file over the model's library ---------- *)
Section OpenTie.
  Variables CHUNK TAG BLOCK LIMIT : N.
  Local Hint Extern 0 Limit => exact LIMIT : typeclass_instances.
  Variable dh : bytes -> bytes -> bytes.
  Variable kdf : bytes -> bytes.
  Variables wdec wtag : bytes -> bytes -> bytes.
  Variable ksf : bytes -> bytes -> N -> N -> N.
  Variable tagf : bytes -> bytes -> N -> bytes -> bytes.
  Variable dec : bytes -> bytes.
  Notation opened := (opened CHUNK TAG BLOCK ksf tagf dec).
  Notation cli_open := (cli_open CHUNK TAG BLOCK LIMIT dh kdf wdec wtag ksf tagf dec).
  Notation archive_open := (archive_open CHUNK TAG BLOCK LIMIT dh kdf wdec wtag ksf tagf dec).
  Notation read_header := (Archive.read_header LIMIT).
  Notation load_config := (Archive.load_config dh kdf wdec wtag).
  Notation repair_open := (CliRepair.repair_open LIMIT dh kdf wdec wtag).

  Variable a : bytes.                       (* the content of the -i file *)
  Variable KPath : Type.
  Variable fs_open_key : KPath -> Src3m.World -> res bytes.
  Variable parse_privkey : bytes -> res bytes.
  Variable site : N -> N.
  Variable arg_keys : option (list KPath).

  (* File = the position in the -i file, whose content is a *)
  Definition FileM : Type := N.
  Definition fs_open_m (_ : unit) : res FileM := Ok 0.
  Definition file_rewind_m (f : FileM) : FileM * res unit := (0, Ok tt).
  Definition header_from_m (f : FileM) : FileM * res Format.header :=
    match read_header (dropN f a) with
    | Ok (h, rest) => (len a - len rest, Ok h)
    | Err e => (f, Err e) | Crash c => (f, Crash c)
    end.
  Definition hdr_contains_m (h : Format.header) (l : Src3m.Layer) : bool :=
    has_bit (h_layers h) (match l with Src3m.ENCRYPT => L_ENCRYPT | Src3m.COMPRESS => L_COMPRESS end).
  Definition reader_from_config_m (f : FileM) (c : Src3m.ReaderConfig) : res (opened a) := archive_open a (Src3m.rc_keys c).

  Definition open_t : Src3m.World -> Src3m.World * res (opened a) :=
    Src3m.open_mla_file unit KPath FileM Format.header (opened a) tt arg_keys fs_open_m file_rewind_m
      header_from_m hdr_contains_m reader_from_config_m fs_open_key parse_privkey site.

  Notation ckeys := (cli_keys KPath fs_open_key parse_privkey site arg_keys).

  (* open_mla_file = Cli.cli_open behind the loading of the keys: File::open, rewind, the header, the REFUSAL of a key for an
     archive without encryption BEFORE from_config, rewind, ArchiveReader::from_config with the candidate keys.  The world
     (output file, <output>.pub, stdout) is not touched *)
  Theorem open_mla_file_src w :
    arg_keys <> Some [] ->
    open_t w = (w, match ckeys w with Ok privs => cli_open a privs | Err e => Err e | Crash x => Crash x end).
  Proof.
    intros Hne. unfold open_t, Src3m.open_mla_file. rewrite readerconfig_from_matches_src.
    assert (Hh : forall cfg (R : res (opened a)),
      (match read_header a with
       | Ok (h, _) => if Src3m.rc_contains cfg Src3m.ENCRYPT && negb (has_bit (h_layers h) L_ENCRYPT) then Err EKey
                      else archive_open a (Src3m.rc_keys cfg)
       | Err e => Err e | Crash c => Crash c end) = R ->
      match fs_open_m tt with
      | Ok v3 =>
        match file_rewind_m v3 with
        | (file4, Ok _) =>
          match header_from_m file4 with
          | (file6, Ok v7) =>
            if Src3m.rc_contains cfg Src3m.ENCRYPT && negb (hdr_contains_m v7 Src3m.ENCRYPT) then (w, Err EKey)
            else match file_rewind_m file6 with
                 | (file8, Ok _) => match reader_from_config_m file8 cfg with Ok v10 => (w, Ok v10) | Err e => (w, Err e) | Crash x => (w, Crash x) end
                 | (file8, Err e) => (w, Err e) | (file8, Crash x) => (w, Crash x)
                 end
          | (file6, Err e) => (w, Err e) | (file6, Crash x) => (w, Crash x)
          end
        | (file4, Err e) => (w, Err e) | (file4, Crash x) => (w, Crash x)
        end
      | Err e => (w, Err e) | Crash x => (w, Crash x)
      end = (w, R)).
    { intros cfg R <-. unfold fs_open_m, file_rewind_m, header_from_m. cbn [fst snd]. change (dropN 0 a) with a.
      destruct (read_header a) as [[h rest]|e|c]; [|reflexivity|reflexivity]. unfold hdr_contains_m, reader_from_config_m.
      destruct (Src3m.rc_contains cfg Src3m.ENCRYPT && negb (has_bit (h_layers h) L_ENCRYPT)); [reflexivity|].
      destruct (archive_open a (Src3m.rc_keys cfg)); reflexivity. }
    destruct arg_keys as [l|] eqn:Ea.
    - destruct (cli_keys KPath fs_open_key parse_privkey site (Some l) w) as [ks|e|x] eqn:Ek; [|reflexivity|reflexivity].
      apply Hh. unfold Cli.cli_open. destruct (read_header a) as [[h rest]|e|c]; cbn [bind fst]; [|reflexivity|reflexivity].
      assert (Hks : key_given ks = true) by (rewrite (cli_keys_given _ _ _ _ _ w ks Hne Ek); reflexivity).
      rewrite Hks. reflexivity.
    - cbn [cli_keys]. apply Hh. unfold Cli.cli_open. destruct (read_header a) as [[h rest]|e|c]; reflexivity.
  Qed.

  (* ---------- carried: C17_failed_open_leaves_no_output / the key policy, on the translated code ---------- *)
  (* whatever makes the open fail (bad header, key given for an archive without encryption, missing key, wrong key, an unreadable
     key file): open_mla_file returns no reader and the world is exactly as it was — nothing created, nothing printed.  list,
     to-tar, convert (and extract) start with `open_mla_file(matches)?` (Src3m: their first statement) *)
  Theorem C17_failed_open_leaves_no_output_src w :
    arg_keys <> Some [] ->
    (forall privs, ckeys w = Ok privs -> open_fails CHUNK TAG BLOCK LIMIT dh kdf wdec wtag ksf tagf dec a privs) ->
    fst (open_t w) = w /\ (forall x, snd (open_t w) <> Ok x).
  Proof.
    intros Hne Hf. rewrite open_mla_file_src by exact Hne. split; [reflexivity|]. cbn [snd].
    destruct (ckeys w) as [privs|e|x]; [exact (Hf privs eq_refl)|discriminate|discriminate].
  Qed.

  (* C07 / C17 key policy: a key is given (and loads), the header says "not encrypted": PrivateKeyProvidedButNotUsed, and
     ArchiveReader::from_config is never reached — whatever the rest of the archive is *)
  Theorem C07_key_for_unencrypted_refused_src w privs h rest :
    arg_keys <> None -> arg_keys <> Some [] -> ckeys w = Ok privs ->
    read_header a = Ok (h, rest) -> has_bit (h_layers h) L_ENCRYPT = false ->
    open_t w = (w, Err EKey).
  Proof.
    intros Hk Hne Hl Hh Hb. rewrite open_mla_file_src by exact Hne. rewrite Hl. unfold Cli.cli_open. rewrite Hh. cbn [bind fst].
    rewrite Hb. rewrite (cli_keys_given _ _ _ _ _ w privs Hne Hl). destruct arg_keys; [reflexivity|congruence].
  Qed.

  (* and an unreadable / unparsable key file: a panic, before the archive is opened *)
  Theorem open_mla_file_bad_key_panics_src w l e :
    arg_keys = Some l -> load_keys KPath fs_open_key parse_privkey w l = Err e -> open_t w = (w, Crash (site 1)).
  Proof.
    intros Ha Hl. unfold open_t, Src3m.open_mla_file. rewrite readerconfig_from_matches_src. rewrite Ha.
    unfold cli_keys. rewrite Hl. reflexivity.
  Qed.

  (* ---------- open_failsafe_mla_file, ANY ArchiveFailSafeReader::from_config ---------- *)
  (* the configuration from_config receives: the candidate keys, the expectation, the unauthenticated switch *)
  Definition fs_cfg (privs : list bytes) (unauth : bool) : Src3m.ReaderConfig :=
    let c := match arg_keys with None => Src3m.rc_new | Some _ => rc_of privs end in
    if unauth then Src3m.rc_failsafe_unauthenticated c else c.

  Theorem open_failsafe_mla_file_gen_src (FSR : Type) (ffc : FileM -> Src3m.ReaderConfig -> res FSR) unauth w :
    arg_keys <> Some [] ->
    Src3m.open_failsafe_mla_file unit KPath FileM Format.header FSR tt arg_keys unauth fs_open_m file_rewind_m
      header_from_m hdr_contains_m ffc fs_open_key parse_privkey site w =
    (w, match ckeys w with
        | Ok privs =>
          match read_header a with
          | Ok (h, _) => if key_given privs && negb (has_bit (h_layers h) L_ENCRYPT) then Err EKey else ffc 0 (fs_cfg privs unauth)
          | Err e => Err e | Crash x => Crash x
          end
        | Err e => Err e | Crash x => Crash x end).
  Proof.
    intros Hne. unfold Src3m.open_failsafe_mla_file. rewrite readerconfig_from_matches_src.
    assert (Hh : forall cfg privs, Src3m.rc_contains cfg Src3m.ENCRYPT = key_given privs ->
      match fs_open_m tt with
      | Ok v3 =>
        match header_from_m v3 with
        | (file4, Ok v5) =>
          if Src3m.rc_contains cfg Src3m.ENCRYPT && negb (hdr_contains_m v5 Src3m.ENCRYPT) then (w, Err EKey)
          else match file_rewind_m file4 with
               | (file6, Ok _) =>
                 match (if unauth then ((w, Src3m.rc_failsafe_unauthenticated cfg), Ok tt) else ((w, cfg), Ok tt)) with
                 | ((w9, config10), Ok _) =>
                   match ffc file6 config10 with Ok v11 => (w9, Ok v11) | Err e => (w9, Err e) | Crash x => (w9, Crash x) end
                 | ((w9, config10), Err e) => (w9, Err e) | ((w9, config10), Crash x) => (w9, Crash x)
                 end
               | (file6, Err e) => (w, Err e) | (file6, Crash x) => (w, Crash x)
               end
        | (file4, Err e) => (w, Err e) | (file4, Crash x) => (w, Crash x)
        end
      | Err e => (w, Err e) | Crash x => (w, Crash x)
      end = (w, match read_header a with
                | Ok (h, _) => if key_given privs && negb (has_bit (h_layers h) L_ENCRYPT) then Err EKey
                               else ffc 0 (if unauth then Src3m.rc_failsafe_unauthenticated cfg else cfg)
                | Err e => Err e | Crash x => Crash x
                end)).
    { intros cfg privs Hc. unfold fs_open_m, file_rewind_m, header_from_m. cbn [fst snd].
      change (dropN 0 a) with a.
      destruct (read_header a) as [[h rest]|e|c] eqn:Eh; [|reflexivity|reflexivity].
      unfold hdr_contains_m. rewrite Hc.
      destruct (key_given privs && negb (has_bit (h_layers h) L_ENCRYPT)); [reflexivity|].
      destruct unauth; cbn [fst]; destruct (ffc 0 _); reflexivity. }
    unfold fs_cfg. destruct arg_keys as [l|] eqn:Ea.
    - destruct (cli_keys KPath fs_open_key parse_privkey site (Some l) w) as [ks|e|x] eqn:Ek; [|reflexivity|reflexivity].
      apply Hh. rewrite (cli_keys_given _ _ _ _ _ w ks Hne Ek). reflexivity.
    - cbn [cli_keys]. apply (Hh Src3m.rc_new []). reflexivity.
  Qed.

  (* ---------- open_failsafe_mla_file = CliRepair.repair_open ---------- *)
  (* ArchiveFailSafeReader::from_config up to the layer readers: rewind, header, load_persistent with the candidate keys; the
     unauthenticated switch is carried in the configuration *)
  Definition FsrM : Type := ((bool * bool * bytes * bytes * bytes) * bool)%type.
  Definition failsafe_from_config_m (f : FileM) (c : Src3m.ReaderConfig) : res FsrM :=
    match read_header a with
    | Ok (h, rest) =>
      match load_config h (Src3m.rc_keys c) with
      | Ok (e, cm, k, n) => Ok ((e, cm, k, n, rest), Src3m.rc_unauth c)
      | Err er => Err er | Crash x => Crash x
      end
    | Err er => Err er | Crash x => Crash x
    end.

  Definition open_failsafe_t (unauth : bool) : Src3m.World -> Src3m.World * res FsrM :=
    Src3m.open_failsafe_mla_file unit KPath FileM Format.header FsrM tt arg_keys unauth fs_open_m file_rewind_m
      header_from_m hdr_contains_m failsafe_from_config_m fs_open_key parse_privkey site.

  Theorem open_failsafe_mla_file_src unauth w :
    arg_keys <> Some [] ->
    open_failsafe_t unauth w =
    (w, match ckeys w with
        | Ok privs => match repair_open a privs with Ok x => Ok (x, unauth) | Err e => Err e | Crash x => Crash x end
        | Err e => Err e | Crash x => Crash x end).
  Proof.
    intros Hne. unfold open_failsafe_t, Src3m.open_failsafe_mla_file. rewrite readerconfig_from_matches_src.
    assert (Hh : forall cfg privs, Src3m.rc_keys cfg = privs -> Src3m.rc_unauth cfg = false ->
      Src3m.rc_contains cfg Src3m.ENCRYPT = key_given privs ->
      match fs_open_m tt with
      | Ok v3 =>
        match header_from_m v3 with
        | (file4, Ok v5) =>
          if Src3m.rc_contains cfg Src3m.ENCRYPT && negb (hdr_contains_m v5 Src3m.ENCRYPT) then (w, Err EKey)
          else match file_rewind_m file4 with
               | (file6, Ok _) =>
                 match (if unauth then ((w, Src3m.rc_failsafe_unauthenticated cfg), Ok tt) else ((w, cfg), Ok tt)) with
                 | ((w9, config10), Ok _) =>
                   match failsafe_from_config_m file6 config10 with Ok v11 => (w9, Ok v11) | Err e => (w9, Err e) | Crash x => (w9, Crash x) end
                 | ((w9, config10), Err e) => (w9, Err e) | ((w9, config10), Crash x) => (w9, Crash x)
                 end
               | (file6, Err e) => (w, Err e) | (file6, Crash x) => (w, Crash x)
               end
        | (file4, Err e) => (w, Err e) | (file4, Crash x) => (w, Crash x)
        end
      | Err e => (w, Err e) | Crash x => (w, Crash x)
      end = (w, match repair_open a privs with Ok x => Ok (x, unauth) | Err e => Err e | Crash x => Crash x end)).
    { intros cfg privs Hk Hu Hc. unfold fs_open_m, file_rewind_m, header_from_m, CliRepair.repair_open. cbn [fst snd].
      change (dropN 0 a) with a. unfold failsafe_from_config_m.
      destruct (read_header a) as [[h rest]|e|c] eqn:Eh; cbn [bind fst]; [|reflexivity|reflexivity].
      unfold hdr_contains_m. rewrite Hc.
      destruct (key_given privs && negb (has_bit (h_layers h) L_ENCRYPT)); [reflexivity|].
      destruct unauth; cbn [fst Src3m.rc_failsafe_unauthenticated Src3m.rc_keys Src3m.rc_unauth]; rewrite ?Eh, ?Hk, ?Hu;
        destruct (load_config h privs) as [[[[e c] k] n]|er|x]; reflexivity. }
    destruct arg_keys as [l|] eqn:Ea.
    - destruct (cli_keys KPath fs_open_key parse_privkey site (Some l) w) as [ks|e|x] eqn:Ek; [|reflexivity|reflexivity].
      apply Hh; [reflexivity|reflexivity|]. rewrite (cli_keys_given _ _ _ _ _ w ks Hne Ek). reflexivity.
    - cbn [cli_keys]. apply Hh; reflexivity.
  Qed.

  (* C07 / C17 key policy of `repair` on the translated code: the same refusal, before ArchiveFailSafeReader::from_config *)
  Theorem C07_repair_key_for_unencrypted_refused_src unauth w privs h rest :
    arg_keys <> None -> arg_keys <> Some [] -> ckeys w = Ok privs ->
    read_header a = Ok (h, rest) -> has_bit (h_layers h) L_ENCRYPT = false ->
    open_failsafe_t unauth w = (w, Err EKey).
  Proof.
    intros Hk Hne Hl Hh Hb. rewrite open_failsafe_mla_file_src by exact Hne. rewrite Hl. unfold CliRepair.repair_open. rewrite Hh. cbn [bind].
    rewrite Hb. rewrite (cli_keys_given _ _ _ _ _ w privs Hne Hl). destruct arg_keys; [reflexivity|congruence].
  Qed.
End OpenTie.
