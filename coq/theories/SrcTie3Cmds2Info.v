(* SrcTie3Cmds2Info.v — Tie A level 1 for `mlar info` (work package cmdsT2): `info` of mlar/src/main.rs as translated by
   tools/src2v3_cmds.py (gen/Src3m.v; the translator was extended for it: println! of integers / booleans, the f64 rate, the fields
   of the header and of ArchiveInfoReader) IS CliInfo.cmd_info: exit status and standard output, on every exit.
   Instantiation: the -i file holds a; ArchiveHeader::from = Archive.read_header (it REFUSES any other format version, so a header
   that was read has format_version = Format.VERSION: the model's header record does not store it); header.config.encrypt =
   Format.h_enc, count_keys = the number of wrapped keys; ArchiveInfoReader::from_config / get_files_size / .compressed_size =
   CliInfo.info_from_config / get_files_size / ir_comp; Display of u32 / usize = CliInfo.dec_of, of bool = bool_text;
   format!("{:.2}", a as f64 / b as f64) = CliInfo.rate_text.  The -k files are left free as everywhere (cli_keys).
   readerconfig_from_matches is reached ONLY when the header has the COMPRESS bit: info_uncompressed_ignores_keys_src. *)
From MLA Require Import Limit.
From MLA Require Import Base Stream Blocks Reader Format Ecies Archive Cli CliInfo Keys.
From MLA Require Import SrcTie3Cmds2Open SrcTie3Cmds2Inst.
From MLAGen Require Src3m.
From Coq Require Import Lia ZifyBool ZifyNat ZifyN.
Open Scope N_scope.

Section Info.
  Variables CHUNK TAG BLOCK LIMIT : N.
  Local Hint Extern 0 Limit => exact LIMIT : typeclass_instances.
  Variable dh : bytes -> bytes -> bytes.
  Variable kdf : bytes -> bytes.
  Variables wdec wtag : bytes -> bytes -> bytes.
  Variable ksf : bytes -> bytes -> N -> N -> N.
  Variable tagf : bytes -> bytes -> N -> bytes -> bytes.
  Variable dec : bytes -> bytes.
  Variable ovf : bool.
  Variable a : bytes.
  Variable KPath : Type.
  Variable fs_open_key : KPath -> Src3m.World -> res bytes.
  Variable parse_privkey : bytes -> res bytes.
  Variables site site_info : N -> N.
  Variable arg_keys : option (list KPath).

  Notation cmd_info := (cmd_info CHUNK TAG BLOCK LIMIT dh kdf wdec wtag ksf tagf dec ovf).
  Notation info_reader := (info_reader).
  Notation ckeys := (cli_keys KPath fs_open_key parse_privkey site arg_keys).

  Definition info_from_config_m (_ : FileM) (c : Src3m.ReaderConfig) : res info_reader :=
    info_from_config CHUNK TAG BLOCK LIMIT dh kdf wdec wtag ksf tagf dec ovf a (Src3m.rc_keys c).

  (* `mlar info -i <a> [-k ..] [-v]` *)
  Definition info_t (verbose : bool) : Src3m.World -> Src3m.World * res unit :=
    Src3m.info unit KPath FileM Format.header tt arg_keys fs_open_m (header_from_m LIMIT a) hdr_contains_m fs_open_key parse_privkey verbose
      info_reader enc_header (fun _ => VERSION) h_enc (fun eh => len (eh_keys eh)) info_from_config_m (get_files_size ovf) ir_comp
      dec_of bool_text rate_text site site_info.

  (* what the process leaves, from a run of the translated command *)
  Definition ires_of (g : Src3m.World * res unit) : ires := mkIres (istatus (snd g)) (Src3m.w_stdout (fst g)).

  Lemma info_tail (s1 s2 s3 : N) verbose (encryption compression : bool) (h : Format.header) (mla : option info_reader) (w : Src3m.World) (R : Src3m.World * res unit) :
    R = (let w1 := Src3m.print_line (Src3m.print_line w (T_VERSION ++ dec_of VERSION ++ [10])) (T_ENC ++ bool_text encryption ++ [10]) in
         match (if encryption && verbose then
                  match h_enc h with
                  | Some eh => (Src3m.print_line w1 (T_RECIP ++ dec_of (len (eh_keys eh)) ++ [10]), Ok tt)
                  | None => (w1, Crash s1)
                  end
                else (w1, Ok tt)) with
         | (w2, Ok _) =>
           let w3 := Src3m.print_line w2 (T_COMP ++ bool_text compression ++ [10]) in
           if compression && verbose then
             match mla with
             | Some ir =>
               match get_files_size ovf ir with
               | Ok fsz => match ir_comp ir with
                           | Some csz => (Src3m.print_line w3 (T_RATE ++ rate_text fsz csz ++ [10]), Ok tt)
                           | None => (w3, Crash s3)
                           end
               | Err e => (w3, Err e)
               | Crash x => (w3, Crash x)
               end
             | None => (w3, Crash s2)
             end
           else (w3, Ok tt)
         | (w2, Err e) => (w2, Err e)
         | (w2, Crash x) => (w2, Crash x)
         end) ->
    Src3m.w_stdout w = [] ->
    ires_of R =
    (let out1 := line_version ++ line_enc encryption in
     match (if encryption && verbose then
              match h_enc h with
              | Some eh => Ok (line_recipients (len (eh_keys eh)))
              | None => Crash SITE_ENC_EXPECT
              end
            else Ok []) with
     | Ok l2 =>
       let out2 := out1 ++ l2 ++ line_comp compression in
       if compression && verbose then
         match mla with
         | None => mkIres 101 out2
         | Some ir =>
           match get_files_size ovf ir with
           | Ok fsz => match ir_comp ir with Some csz => mkIres 0 (out2 ++ line_rate fsz csz) | None => mkIres 101 out2 end
           | x => mkIres (istatus x) out2
           end
         end
       else mkIres 0 out2
     | x => mkIres (istatus x) out1
     end).
  Proof.
    intros -> Hw. destruct w as [o pb so]. cbn [Src3m.w_stdout] in Hw. subst so. cbv zeta.
    unfold ires_of, Src3m.print_line, line_version, line_enc, line_recipients, line_comp, line_rate, CliInfo.NL.
    cbn [Src3m.w_out Src3m.w_pub Src3m.w_stdout app].
    destruct (encryption && verbose).
    - destruct (h_enc h) as [eh|]; [|reflexivity]. cbn [Src3m.w_out Src3m.w_pub Src3m.w_stdout].
      destruct (compression && verbose).
      + destruct mla as [ir|]; [|cbn [fst snd istatus Src3m.w_stdout]; rewrite <- !app_assoc; reflexivity].
        destruct (get_files_size ovf ir) as [fsz|e|x]; [|cbn [fst snd istatus Src3m.w_stdout]; rewrite <- !app_assoc; reflexivity..].
        destruct (ir_comp ir) as [csz|]; cbn [fst snd istatus Src3m.w_stdout]; rewrite <- !app_assoc; reflexivity.
      + cbn [fst snd istatus Src3m.w_stdout]. rewrite <- !app_assoc. reflexivity.
    - cbn [Src3m.w_out Src3m.w_pub Src3m.w_stdout].
      destruct (compression && verbose).
      + destruct mla as [ir|]; [|cbn [fst snd istatus Src3m.w_stdout app]; rewrite <- !app_assoc; reflexivity].
        destruct (get_files_size ovf ir) as [fsz|e|x]; [|cbn [fst snd istatus Src3m.w_stdout app]; rewrite <- !app_assoc; reflexivity..].
        destruct (ir_comp ir) as [csz|]; cbn [fst snd istatus Src3m.w_stdout app]; rewrite <- !app_assoc; reflexivity.
      + cbn [fst snd istatus Src3m.w_stdout app]. rewrite <- !app_assoc. reflexivity.
  Qed.

  (* info = CliInfo.cmd_info: exit status (0 / 1 / 101) and standard output, on every exit *)
  Theorem info_src verbose privs w :
    Src3m.w_stdout w = [] -> ckeys w = Ok privs ->
    ires_of (info_t verbose w) = cmd_info verbose a privs.
  Proof.
    intros Hw Hk. unfold info_t, Src3m.info, CliInfo.cmd_info, fs_open_m, header_from_m. change (dropN 0 a) with a.
    destruct (Archive.read_header LIMIT a) as [[h rest]|e|x]; [|unfold ires_of; cbn [fst snd]; rewrite Hw; reflexivity..].
    unfold hdr_contains_m. cbv zeta.
    destruct (has_bit (h_layers h) L_COMPRESS) eqn:Ec.
    - rewrite readerconfig_from_matches_src.
      assert (Hcfg : forall R : res Src3m.ReaderConfig,
                R = match arg_keys with
                    | None => Ok Src3m.rc_new
                    | Some _ => match ckeys w with Ok ks => Ok (rc_of ks) | Err e => Err e | Crash x => Crash x end
                    end -> exists c, R = Ok c /\ Src3m.rc_keys c = privs).
      { intros R ->. rewrite Hk. destruct arg_keys; [exists (rc_of privs); split; reflexivity|].
        cbn [cli_keys] in Hk. injection Hk as <-. exists Src3m.rc_new. split; reflexivity. }
      destruct (Hcfg _ eq_refl) as (c & -> & Hc). unfold info_from_config_m. rewrite Hc.
      destruct (info_from_config CHUNK TAG BLOCK LIMIT dh kdf wdec wtag ksf tagf dec ovf a privs) as [ir|e|x];
        [|unfold ires_of; cbn [fst snd]; rewrite Hw; reflexivity..].
      apply (info_tail (site_info 1) (site_info 2) (site_info 3) verbose (has_bit (h_layers h) L_ENCRYPT) true h (Some ir) w); [|exact Hw]. cbv zeta.
      destruct (has_bit (h_layers h) L_ENCRYPT && verbose); [destruct (h_enc h) as [eh|]; [|reflexivity]|];
        (destruct (true && verbose); [|reflexivity]);
        (destruct (get_files_size ovf ir) as [fsz|e|x]; [|reflexivity|reflexivity]); destruct (ir_comp ir); reflexivity.
    - apply (info_tail (site_info 4) (site_info 5) (site_info 6) verbose (has_bit (h_layers h) L_ENCRYPT) false h None w); [|exact Hw]. cbv zeta.
      destruct (has_bit (h_layers h) L_ENCRYPT && verbose); [destruct (h_enc h) as [eh|]; [|reflexivity]|]; reflexivity.
  Qed.

  (* without the COMPRESS bit the -k files are not even opened: whatever they are (unreadable, unparsable, a panic of the
     parser), and whatever candidate keys the model is given, the result is the same *)
  Theorem info_uncompressed_ignores_keys_src verbose privs w h rest :
    Src3m.w_stdout w = [] -> Archive.read_header LIMIT a = Ok (h, rest) -> has_bit (h_layers h) L_COMPRESS = false ->
    ires_of (info_t verbose w) = cmd_info verbose a privs.
  Proof.
    intros Hw Hh Ec. unfold info_t, Src3m.info, CliInfo.cmd_info, fs_open_m, header_from_m. change (dropN 0 a) with a. rewrite Hh.
    unfold hdr_contains_m. cbv zeta. rewrite Ec.
    apply (info_tail (site_info 4) (site_info 5) (site_info 6) verbose (has_bit (h_layers h) L_ENCRYPT) false h None w); [|exact Hw]. cbv zeta.
    destruct (has_bit (h_layers h) L_ENCRYPT && verbose); [destruct (h_enc h) as [eh|]; [|reflexivity]|]; reflexivity.
  Qed.

End Info.
