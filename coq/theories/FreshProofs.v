(* FreshProofs.v — proofs about the state-passing randomness machine of Fresh.v (C07):
     secrets_are_entropy_functions   key / nonce / ephemeral scalar of every archive are key_of / nonce_of /
                                     eph_of of OS requests; all requests behind all archives are pairwise distinct
     fresh_if_entropy_fresh          hence, when the OS does not repeat and the expansions of the seeds that
                                     occurred do not collide, two archives never share key, nonce or ephemeral key
     builders_*                      the builders keep key and nonce; add_public_keys extends *)
From MLA Require Import Base Builders Fresh.
From Coq Require Import Lia.
Open Scope N_scope.

(* ---------- lists ---------- *)
Lemma nodup_app {A} (a b : list A) :
  NoDup (a ++ b) <-> NoDup a /\ NoDup b /\ forall x, In x a -> In x b -> False.
Proof.
  induction a as [|x a IH]; cbn [app].
  - split; [intros H; repeat split; [constructor | exact H | intros ? []] | intros (_ & H & _); exact H].
  - rewrite !NoDup_cons_iff, IH, in_app_iff. split.
    + intros (Hx & Ha & Hb & Hd). repeat split; auto.
      intros y [<-|Hy] Hyb; [apply Hx; now right | exact (Hd y Hy Hyb)].
    + intros ((Hx & Ha) & Hb & Hd). repeat split; auto.
      * intros [H|H]; [exact (Hx H) | exact (Hd x (or_introl eq_refl) H)].
      * intros y Hy. apply Hd. now right.
Qed.

Lemma nodup_map_filter {A B} (g : A -> B) (p : A -> bool) l : NoDup (map g l) -> NoDup (map g (filter p l)).
Proof.
  induction l as [|a l IH]; cbn [map filter]; intros H; [exact H|].
  apply NoDup_cons_iff in H as [Hn Hd]. destruct (p a); cbn [map]; [|auto].
  apply NoDup_cons_iff. split; [|auto]. intros Hin. apply Hn.
  apply in_map_iff in Hin as (x & Hx & Hf). apply filter_In in Hf as [Hf _]. rewrite <- Hx. now apply in_map.
Qed.

Lemma in_map_filter {A B} (g : A -> B) (p : A -> bool) l x : In x (map g (filter p l)) -> In x (map g l).
Proof. intros H. apply in_map_iff in H as (y & Hy & Hf). apply filter_In in Hf as [Hf _]. rewrite <- Hy. now apply in_map. Qed.

Lemma filtered_out {A B} (g : A -> B) (p : A -> bool) l e :
  NoDup (map g l) -> In e l -> p e = false -> ~ In (g e) (map g (filter p l)).
Proof.
  induction l as [|a l IH]; cbn [map filter]; intros ND Hin Hp; [destruct Hin|].
  apply NoDup_cons_iff in ND as [Hn Hd]. destruct Hin as [->|Hin].
  - rewrite Hp. intros H. apply Hn. eapply in_map_filter. exact H.
  - destruct (p a); cbn [map]; [|auto].
    intros [Heq|H]; [apply Hn; rewrite Heq; now apply in_map | exact (IH Hd Hin Hp H)].
Qed.

Lemma nodup_flat_map_nth {A B} (f : A -> list B) l : NoDup (flat_map f l) ->
  forall i j a b, nth_error l i = Some a -> nth_error l j = Some b -> i <> j ->
  forall x, In x (f a) -> In x (f b) -> False.
Proof.
  induction l as [|h l IH]; intros ND i j a b Hi Hj Hne x Ha Hb; [destruct i; discriminate|].
  cbn [flat_map] in ND. apply nodup_app in ND as (_ & Hl & Hd).
  destruct i as [|i], j as [|j]; cbn [nth_error] in Hi, Hj.
  - congruence.
  - injection Hi as <-. apply (Hd x Ha). apply in_flat_map. exists b. split; [eapply nth_error_In; eauto | exact Hb].
  - injection Hj as <-. apply (Hd x Hb). apply in_flat_map. exists a. split; [eapply nth_error_In; eauto | exact Ha].
  - apply (IH Hl i j a b Hi Hj (fun H => Hne (f_equal S H)) x Ha Hb).
Qed.

Section FreshProofs.
  Variable entropy : nat -> bytes.
  Variable expand : bytes -> N -> bytes.
  Variable pubk : bytes -> bytes.
  Variables L_DEFAULT LEVEL_DEFAULT L_ENC : N.

  Notation key_of := (key_of expand).
  Notation nonce_of := (nonce_of expand).
  Notation eph_of := (eph_of expand).
  Notation enc_default := (enc_default entropy expand).
  Notation cfg_new := (cfg_new entropy expand LEVEL_DEFAULT).
  Notation cfg_default := (cfg_default entropy expand L_DEFAULT LEVEL_DEFAULT).
  Notation from_config := (from_config entropy expand pubk L_ENC).
  Notation step := (step entropy expand pubk L_DEFAULT LEVEL_DEFAULT L_ENC).
  Notation run := (run entropy expand pubk L_DEFAULT LEVEL_DEFAULT L_ENC).

  (* ---------- the draws ---------- *)
  (* key first, then nonce, both from the ONE generator seeded by request w; one request consumed *)
  Lemma enc_default_spec w : enc_default w = (key_of (entropy w), nonce_of (entropy w), S w).
  Proof.
    unfold Fresh.enc_default, from_os_rng, Fresh.key_of, Fresh.nonce_of. cbv beta iota.
    destruct (random_u8s expand 32 (mkG (entropy w) 0)) as [k g1]. cbn [fst snd].
    destruct (random_u8s expand 8 g1) as [n g2]. reflexivity.
  Qed.

  Lemma cfg_new_spec w : cfg_new w = (mkCfg 0 LEVEL_DEFAULT (key_of (entropy w)) (nonce_of (entropy w)) [] w, S w).
  Proof. unfold Fresh.cfg_new. rewrite enc_default_spec. reflexivity. Qed.
  Lemma cfg_default_spec w :
    cfg_default w = (mkCfg L_DEFAULT LEVEL_DEFAULT (key_of (entropy w)) (nonce_of (entropy w)) [] w, S w).
  Proof. unfold Fresh.cfg_default. rewrite enc_default_spec. reflexivity. Qed.

  Lemma from_config_cases pid h c fs w oa w' : from_config pid h c fs w = (oa, w') ->
    (oa = None /\ w' = w) \/
    (exists a, oa = Some a /\ a_enc a = false /\ w' = w) \/
    (exists a, oa = Some a /\ a_enc a = true /\ w' = S w /\ a_key a = c_key c /\ a_nonce a = c_nonce c /\
               a_eph a = eph_of (entropy w) /\ a_epub a = pubk (a_eph a) /\ a_cfg_req a = c_req c /\ a_wrap_req a = w /\
               a_recips a = c_recips c /\ c_recips c <> []).
  Proof.
    unfold Fresh.from_config, from_os_rng, Fresh.eph_of, fill_bytes. cbv beta iota.
    destruct (is_layers_enabled (c_layers c) L_ENC); cbn [andb].
    - destruct (c_recips c) as [|r rs] eqn:Hr.
      + intros H; injection H as <- <-. now left.
      + intros H; injection H as <- <-. right; right. eexists. split; [reflexivity|]. cbn.
        repeat split; congruence.
    - intros H; injection H as <- <-. right; left. eexists. split; [reflexivity|]. cbn. auto.
  Qed.

  (* ---------- the builders ---------- *)
  Definition keeps (f : wcfg -> wcfg) : Prop :=
    forall c, c_key (f c) = c_key c /\ c_nonce (f c) = c_nonce c /\ c_req (f c) = c_req c.

  Lemma builder_keeps cl f : builder_of cl = Some f -> keeps f.
  Proof.
    destruct cl; cbn [builder_of]; intros H; try discriminate; injection H as <-; intros c; cbn; auto.
    unfold b_level. destruct (11 <? lvl); cbn; auto.
  Qed.

  (* enable / disable / set_layers / add_public_keys / with_compression_level leave key and nonce alone *)
  Theorem builders_do_not_touch_secrets c l ks lvl :
    (c_key (b_enable c l) = c_key c /\ c_nonce (b_enable c l) = c_nonce c) /\
    (c_key (b_disable c l) = c_key c /\ c_nonce (b_disable c l) = c_nonce c) /\
    (c_key (b_set_layers c l) = c_key c /\ c_nonce (b_set_layers c l) = c_nonce c) /\
    (c_key (b_add_keys c ks) = c_key c /\ c_nonce (b_add_keys c ks) = c_nonce c) /\
    (c_key (b_level c lvl) = c_key c /\ c_nonce (b_level c lvl) = c_nonce c) /\
    (* add_public_keys EXTENDS; the others keep the recipients *)
    c_recips (b_add_keys c ks) = c_recips c ++ ks /\
    c_recips (b_enable c l) = c_recips c /\ c_recips (b_disable c l) = c_recips c /\
    c_recips (b_set_layers c l) = c_recips c /\ c_recips (b_level c lvl) = c_recips c.
  Proof. unfold b_level. destruct (11 <? lvl); cbn; repeat split. Qed.

  (* any sequence of builder calls, in any order and number *)
  Theorem builder_sequence_keeps_secrets (cls : list call) : forall c,
    Forall (fun cl => builder_of cl <> None) cls ->
    let c' := fold_left (fun c cl => match builder_of cl with Some f => f c | None => c end) cls c in
    c_key c' = c_key c /\ c_nonce c' = c_nonce c /\ c_req c' = c_req c /\
    c_recips c' = c_recips c ++ flat_map (fun cl => match cl with CAddKeys ks => ks | _ => [] end) cls.
  Proof.
    induction cls as [|cl cls IH]; intros c HF; cbn [fold_left flat_map].
    - rewrite app_nil_r. auto.
    - inversion HF as [|? ? Hcl HF']; subst.
      destruct (builder_of cl) as [f|] eqn:Hf; [|congruence].
      destruct (builder_keeps _ _ Hf c) as (Hk & Hn & Hr).
      destruct (IH (f c) HF') as (Hk' & Hn' & Hr' & Hrc). cbv zeta in *.
      rewrite Hk', Hn', Hr', Hrc, Hk, Hn, Hr. repeat split.
      destruct cl; cbn [builder_of] in Hf; try discriminate; injection Hf as <-; cbn [c_recips b_enable b_disable b_set_layers b_add_keys];
        rewrite ?app_nil_l, ?app_assoc; try reflexivity.
      unfold b_level. destruct (11 <? lvl); reflexivity.
  Qed.

  (* ---------- tables ---------- *)
  Lemma reqs_update k f t : keeps f -> reqs_tab (t_update k f t) = reqs_tab t.
  Proof.
    intros Hf. unfold reqs_tab, t_update. rewrite map_map. apply map_ext. intros [k0 c].
    cbn [fst snd]. destruct (hkey_eqb k0 k); cbn [snd]; [apply Hf | reflexivity].
  Qed.

  Definition cfg_ok (c : wcfg) : Prop :=
    c_key c = key_of (entropy (c_req c)) /\ c_nonce c = nonce_of (entropy (c_req c)).
  Definition arch_ok (a : arch) : Prop :=
    a_enc a = true ->
    a_key a = key_of (entropy (a_cfg_req a)) /\ a_nonce a = nonce_of (entropy (a_cfg_req a)) /\
    a_eph a = eph_of (entropy (a_wrap_req a)) /\ a_epub a = pubk (a_eph a).

  Lemma lookup_in k t c : t_lookup k t = Some c -> exists k0, In (k0, c) t /\ hkey_eqb k0 k = true.
  Proof.
    unfold t_lookup. destruct (find _ t) as [[k0 c0]|] eqn:Hf; [|discriminate].
    intros H; injection H as <-. apply find_some in Hf as [Hin Hk]. exists k0. auto.
  Qed.

  Record Inv (m : mstate) : Prop := {
    i_tab : NoDup (reqs_tab (m_tab m));
    i_out : NoDup (reqs_out (m_out m));
    i_dis : forall x, In x (reqs_tab (m_tab m)) -> In x (reqs_out (m_out m)) -> False;
    i_tab_lt : forall x, In x (reqs_tab (m_tab m)) -> (x < m_w m)%nat;
    i_out_lt : forall x, In x (reqs_out (m_out m)) -> (x < m_w m)%nat;
    i_cfg : forall e, In e (m_tab m) -> cfg_ok (snd e);
    i_arch : forall a, In a (m_out m) -> arch_ok a;
  }.

  Lemma Inv_init : Inv m_init.
  Proof. constructor; cbn; try constructor; intros; contradiction. Qed.

  Lemma in_reqs_remove k t x : In x (reqs_tab (t_remove k t)) -> In x (reqs_tab t).
  Proof. apply in_map_filter. Qed.

  (* binding a configuration seeded by the current request *)
  Lemma Inv_bind m k c : Inv m -> c_req c = m_w m -> cfg_ok c ->
    Inv (mkM (S (m_w m)) (t_bind k c (m_tab m)) (m_out m)).
  Proof.
    intros [I1 I2 I3 I4 I5 I6 I7] Hr Hc. constructor; cbn [m_w m_tab m_out].
    - unfold t_bind. cbn [reqs_tab map snd]. apply NoDup_cons_iff. split.
      + intros H. apply in_reqs_remove in H. apply I4 in H. lia.
      + apply nodup_map_filter. exact I1.
    - exact I2.
    - unfold t_bind. cbn [reqs_tab map snd]. intros x [<-|H] Ho.
      + apply I5 in Ho. lia.
      + apply in_reqs_remove in H. eauto.
    - unfold t_bind. cbn [reqs_tab map snd]. intros x [<-|H]; [lia|]. apply in_reqs_remove in H. apply I4 in H. lia.
    - intros x H. apply I5 in H. lia.
    - unfold t_bind. intros e [<-|H]; [exact Hc|]. apply filter_In in H as [H _]. auto.
    - exact I7.
  Qed.

  Lemma reqs_out_app l a : reqs_out (l ++ [a]) = reqs_out l ++ areqs a.
  Proof. unfold reqs_out. rewrite flat_map_app. cbn [flat_map]. now rewrite app_nil_r. Qed.

  (* an archive made from a configuration that leaves the table (or never was in it) *)
  Lemma Inv_emit m t' c pid h fs oa w' :
    Inv m ->
    (forall x, In x (reqs_tab t') -> In x (reqs_tab (m_tab m)) /\ x <> c_req c) ->
    NoDup (reqs_tab t') -> (forall e, In e t' -> cfg_ok (snd e)) ->
    cfg_ok c -> (c_req c < m_w m)%nat -> ~ In (c_req c) (reqs_out (m_out m)) ->
    from_config pid h c fs (m_w m) = (oa, w') ->
    Inv (mkM w' t' (m_out m ++ opt_list oa)).
  Proof.
    intros [I1 I2 I3 I4 I5 I6 I7] Ht Hnd Hok Hc Hlt Hnin Hfc.
    destruct (from_config_cases _ _ _ _ _ _ _ Hfc) as [[-> ->]|[(a & -> & Ha & ->)|(a & -> & Ha & -> & Hk & Hn & He & Hp & Hq & Hw & _)]];
      cbn [opt_list].
    - rewrite app_nil_r. constructor; cbn [m_w m_tab m_out]; auto.
      + intros x Hx. apply Ht in Hx as [Hx _]. eauto.
      + intros x Hx. apply Ht in Hx as [Hx _]. auto.
    - assert (Hr : reqs_out (m_out m ++ [a]) = reqs_out (m_out m)).
      { rewrite reqs_out_app. unfold areqs. rewrite Ha. apply app_nil_r. }
      constructor; cbn [m_w m_tab m_out]; rewrite ?Hr; auto.
      + intros x Hx. apply Ht in Hx as [Hx _]. eauto.
      + intros x Hx. apply Ht in Hx as [Hx _]. auto.
      + intros b Hb. apply in_app_iff in Hb as [Hb|[<-|[]]]; [auto|]. intros Hb. congruence.
    - assert (Hr : reqs_out (m_out m ++ [a]) = reqs_out (m_out m) ++ [c_req c; m_w m]).
      { rewrite reqs_out_app. unfold areqs. rewrite Ha, Hq, Hw. reflexivity. }
      constructor; cbn [m_w m_tab m_out]; rewrite ?Hr; auto.
      + apply nodup_app. split; [exact I2|]. split.
        * apply NoDup_cons_iff. split; [cbn; intros [H|[]]; lia|]. apply NoDup_cons_iff. split; [intros []|constructor].
        * intros x Hx [<-|[<-|[]]]; [exact (Hnin Hx) | apply I5 in Hx; lia].
      + intros x Hx Hin. destruct (Ht x Hx) as [Hx' Hne]. apply in_app_iff in Hin as [Hin|[<-|[<-|[]]]].
        * eauto.
        * congruence.
        * apply I4 in Hx'. lia.
      + intros x Hx. apply Ht in Hx as [Hx _]. apply I4 in Hx. lia.
      + intros x Hx. apply in_app_iff in Hx as [Hx|[<-|[<-|[]]]]; [apply I5 in Hx|..]; lia.
      + intros b Hb. apply in_app_iff in Hb as [Hb|[<-|[]]]; [auto|]. intros _.
        destruct Hc as [Hck Hcn]. rewrite Hk, Hn, Hq, Hw. auto.
  Qed.

  Lemma Inv_update m k f : keeps f -> Inv m -> Inv (mkM (m_w m) (t_update k f (m_tab m)) (m_out m)).
  Proof.
    intros Hk [I1 I2 I3 I4 I5 I6 I7].
    constructor; cbn [m_w m_tab m_out]; rewrite ?(reqs_update _ _ _ Hk); auto.
    intros x Hx. apply in_map_iff in Hx as ([k0 c0] & <- & Hin). specialize (I6 _ Hin). cbn [fst snd] in *.
    destruct (hkey_eqb k0 k); cbn [snd]; [|exact I6].
    destruct (Hk c0) as (H1 & H2 & H3). unfold cfg_ok in *. rewrite H1, H2, H3. exact I6.
  Qed.

  Lemma Inv_step m e : Inv m -> Inv (step m e).
  Proof.
    intros HI. unfold Fresh.step.
    destruct (e_call e) as [| |l|l|l|ks|lvl| |fs|ks fs] eqn:Hcall.
    - rewrite cfg_new_spec. apply Inv_bind; [exact HI | reflexivity | split; reflexivity].
    - rewrite cfg_default_spec. apply Inv_bind; [exact HI | reflexivity | split; reflexivity].
    - cbn [builder_of]. apply Inv_update; [|exact HI]. exact (builder_keeps (CEnable l) _ eq_refl).
    - cbn [builder_of]. apply Inv_update; [|exact HI]. exact (builder_keeps (CDisable l) _ eq_refl).
    - cbn [builder_of]. apply Inv_update; [|exact HI]. exact (builder_keeps (CSetLayers l) _ eq_refl).
    - cbn [builder_of]. apply Inv_update; [|exact HI]. exact (builder_keeps (CAddKeys ks) _ eq_refl).
    - cbn [builder_of]. apply Inv_update; [|exact HI]. exact (builder_keeps (CLevel lvl) _ eq_refl).
    - destruct (t_lookup _ (m_tab m)) as [c|]; [|exact HI].
      destruct (is_layers_enabled (c_layers c) L_ENC); [|exact HI].
      destruct HI as [I1 I2 I3 I4 I5 I6 I7]. constructor; cbn [m_w m_tab m_out]; auto.
      + intros x Hx. apply I4 in Hx. lia.
      + intros x Hx. apply I5 in Hx. lia.
    - destruct (t_lookup _ (m_tab m)) as [c|] eqn:Hl; [|exact HI].
      destruct (from_config _ _ c fs (m_w m)) as [oa w1] eqn:Hfc.
      apply lookup_in in Hl as (k0 & Hin & Hk0).
      pose proof HI as [I1 I2 I3 I4 I5 I6 I7].
      assert (Hreq : In (c_req c) (reqs_tab (m_tab m))).
      { unfold reqs_tab. apply in_map_iff. exists (k0, c). auto. }
      eapply Inv_emit; try exact Hfc; auto.
      + intros x Hx. split; [eapply in_reqs_remove; exact Hx|]. intros ->.
        revert Hx. unfold reqs_tab, t_remove.
        apply (filtered_out (fun e : hkey * wcfg => c_req (snd e)) _ (m_tab m) (k0, c) I1 Hin).
        cbn [fst]. rewrite Hk0. reflexivity.
      + apply nodup_map_filter. exact I1.
      + intros e0 He0. apply filter_In in He0 as [He0 _]. auto.
      + exact (I6 _ Hin).
      + eauto.
    - rewrite cfg_default_spec.
      set (c := b_add_keys _ ks).
      destruct (from_config _ _ c fs (S (m_w m))) as [oa w2] eqn:Hfc.
      pose proof HI as [I1 I2 I3 I4 I5 I6 I7].
      change (Inv (mkM w2 (m_tab (mkM (S (m_w m)) (m_tab m) (m_out m))) (m_out (mkM (S (m_w m)) (m_tab m) (m_out m)) ++ opt_list oa))).
      eapply (Inv_emit (mkM (S (m_w m)) (m_tab m) (m_out m))) with (c := c); try exact Hfc; cbn [m_w m_tab m_out]; auto.
      + constructor; cbn [m_w m_tab m_out]; auto.
        * intros x Hx. apply I4 in Hx. lia.
        * intros x Hx. apply I5 in Hx. lia.
      + intros x Hx. split; [exact Hx|]. apply I4 in Hx. subst c. cbn [c_req b_add_keys]. lia.
      + subst c. split; reflexivity.
      + subst c. cbn [c_req b_add_keys]. intros Hx. apply I5 in Hx. lia.
  Qed.

  Lemma Inv_run t : forall m, Inv m -> Inv (run m t).
  Proof. induction t as [|e t IH]; intros m HI; cbn [Fresh.run fold_left]; [exact HI|]. apply IH, Inv_step, HI. Qed.

  (* ---------- theorem 1 ---------- *)
  (* For ANY trace: the key and the nonce of an encrypted archive are key_of / nonce_of — fixed functions
     that mention no input — of ONE request to the OS, its ephemeral scalar is eph_of of ANOTHER request,
     and the requests behind all the archives ever made are pairwise distinct (so: disjoint requests for
     different archives, and for the configuration vs the key wrapping of the same archive). *)
  Theorem secrets_are_entropy_functions (t : list evt) :
    let m := run m_init t in
    (forall a, In a (m_out m) -> a_enc a = true ->
       a_key a = key_of (entropy (a_cfg_req a)) /\
       a_nonce a = nonce_of (entropy (a_cfg_req a)) /\
       a_eph a = eph_of (entropy (a_wrap_req a)) /\
       a_epub a = pubk (a_eph a) /\
       (a_cfg_req a < m_w m)%nat /\ (a_wrap_req a < m_w m)%nat /\ a_cfg_req a <> a_wrap_req a) /\
    NoDup (flat_map (fun a => if a_enc a then [a_cfg_req a; a_wrap_req a] else []) (m_out m)).
  Proof.
    cbv zeta. destruct (Inv_run t _ Inv_init) as [I1 I2 I3 I4 I5 I6 I7]. split; [|exact I2].
    intros a Hin Ha. destruct (I7 a Hin Ha) as (H1 & H2 & H3 & H4). repeat split; auto.
    - apply I5. unfold reqs_out. apply in_flat_map. exists a. split; [exact Hin|]. unfold areqs. rewrite Ha. now left.
    - apply I5. unfold reqs_out. apply in_flat_map. exists a. split; [exact Hin|]. unfold areqs. rewrite Ha. right; now left.
    - intros Heq. apply in_split in Hin as (l1 & l2 & Hs). unfold reqs_out in I2. rewrite Hs, flat_map_app in I2.
      cbn [flat_map] in I2. apply nodup_app in I2 as (_ & I2 & _). apply nodup_app in I2 as (I2 & _ & _).
      unfold areqs in I2. rewrite Ha, Heq in I2. apply NoDup_cons_iff in I2 as [I2 _]. apply I2. now left.
  Qed.

  (* ---------- theorem 2 ---------- *)
  Section FreshIf.
    Variable B : nat.                     (* the requests made to the OS during the period considered *)
    (* the OS generator does not repeat *)
    Hypothesis Hent : forall i j, (i < B)%nat -> (j < B)%nat -> entropy i = entropy j -> i = j.
    (* the expansion does not collide on the seeds that occurred, for the bytes that are drawn *)
    Hypothesis Hkey : forall i j, (i < B)%nat -> (j < B)%nat ->
      key_of (entropy i) = key_of (entropy j) -> entropy i = entropy j.
    Hypothesis Hnonce : forall i j, (i < B)%nat -> (j < B)%nat ->
      nonce_of (entropy i) = nonce_of (entropy j) -> entropy i = entropy j.
    Hypothesis Heph : forall i j, (i < B)%nat -> (j < B)%nat ->
      eph_of (entropy i) = eph_of (entropy j) -> entropy i = entropy j.
    (* curve: distinct scalars that occurred have distinct public keys *)
    Hypothesis Hpub : forall i j, (i < B)%nat -> (j < B)%nat ->
      pubk (eph_of (entropy i)) = pubk (eph_of (entropy j)) -> eph_of (entropy i) = eph_of (entropy j).

    Theorem fresh_if_entropy_fresh (t : list evt) i j a1 a2 :
      let m := run m_init t in
      (m_w m <= B)%nat ->
      nth_error (m_out m) i = Some a1 -> nth_error (m_out m) j = Some a2 -> i <> j ->
      a_enc a1 = true -> a_enc a2 = true ->
      a_key a1 <> a_key a2 /\ a_nonce a1 <> a_nonce a2 /\ a_eph a1 <> a_eph a2 /\ a_epub a1 <> a_epub a2.
    Proof.
      cbv zeta. intros HB H1 H2 Hne E1 E2.
      destruct (secrets_are_entropy_functions t) as [HS HND]. cbv zeta in HS, HND.
      destruct (HS a1 (nth_error_In _ _ H1) E1) as (K1 & N1 & P1 & Q1 & L1 & M1 & _).
      destruct (HS a2 (nth_error_In _ _ H2) E2) as (K2 & N2 & P2 & Q2 & L2 & M2 & _).
      pose proof (nodup_flat_map_nth _ _ HND i j a1 a2 H1 H2 Hne) as Hd. cbv beta in Hd. rewrite E1, E2 in Hd.
      assert (Hc : a_cfg_req a1 <> a_cfg_req a2) by (intros Heq; apply (Hd (a_cfg_req a1)); [now left | rewrite Heq; now left]).
      assert (Hw : a_wrap_req a1 <> a_wrap_req a2)
        by (intros Heq; apply (Hd (a_wrap_req a1)); [right; now left | rewrite Heq; right; now left]).
      repeat split.
      - rewrite K1, K2. intros Heq. apply Hc. apply Hent; [lia | lia |]. apply Hkey; [lia | lia | exact Heq].
      - rewrite N1, N2. intros Heq. apply Hc. apply Hent; [lia | lia |]. apply Hnonce; [lia | lia | exact Heq].
      - rewrite P1, P2. intros Heq. apply Hw. apply Hent; [lia | lia |]. apply Heph; [lia | lia | exact Heq].
      - rewrite Q1, Q2, P1, P2. intros Heq. apply Hw. apply Hent; [lia | lia |]. apply Heph; [lia | lia |].
        apply Hpub; [lia | lia | exact Heq].
    Qed.
  End FreshIf.
End FreshProofs.

(* ---------- deciding the hypotheses of fresh_if_entropy_fresh for a concrete, bounded period ---------- *)
Fixpoint nodupb (l : list bytes) : bool :=
  match l with [] => true | x :: r => negb (existsb (bytes_eqb x) r) && nodupb r end.
Lemma nodupb_NoDup l : nodupb l = true -> NoDup l.
Proof.
  induction l as [|x r IH]; cbn [nodupb]; intros H; [constructor|].
  apply andb_prop in H as [H1 H2]. constructor; [|auto].
  intros Hin. apply Bool.negb_true_iff in H1. assert (existsb (bytes_eqb x) r = true); [|congruence].
  apply existsb_exists. exists x. split; [exact Hin | apply bytes_eqb_refl].
Qed.
Lemma bounded_inj_of_check (f : nat -> bytes) (B : nat) : nodupb (map f (seq 0 B)) = true ->
  forall i j, (i < B)%nat -> (j < B)%nat -> f i = f j -> i = j.
Proof.
  intros H i j Hi Hj Heq. apply nodupb_NoDup in H.
  assert (Hl : length (map f (seq 0 B)) = B) by (rewrite map_length, seq_length; reflexivity).
  apply (proj1 (NoDup_nth (map f (seq 0 B)) (f O)) H i j); rewrite ?Hl; auto.
  rewrite !map_nth, !seq_nth by assumption. exact Heq.
Qed.
