#!/bin/bash
# Build the framework from files on disk only (offline): Tie A translation, the whole Coq
# development (full .vo), the correspondence harness in both flavours.
set -u
cd "$(dirname "$0")"
export CARGO_NET_OFFLINE=true
python3 tools/src2v.py || exit 1
( cd coq && coq_makefile -f _CoqProject -o Makefile >/dev/null 2>&1 && timeout 3000 make -j"$(nproc)" 2>&1 | grep -v "^COQDEP\|^COQC\|Warning" | tail -20 ; exit ${PIPESTATUS[0]} ) || { echo "coq build failed"; exit 1; }
( cd harness && CARGO_TARGET_DIR=../.build/harness-scaled timeout 3000 cargo build --offline --quiet --features scaled 2>&1 | grep -E "^error" -A5 | head -40 ; exit ${PIPESTATUS[0]} ) || { echo "harness (scaled) build failed"; exit 1; }
( cd harness && CARGO_TARGET_DIR=../.build/harness-prod timeout 3000 cargo build --offline --quiet 2>&1 | grep -E "^error" -A5 | head -40 ; exit ${PIPESTATUS[0]} ) || { echo "harness (prod) build failed"; exit 1; }
echo "setup done"
